#!/bin/bash
# offline: overlay venv on /venv (which has the repo's deps) + z3/cvc5 from the wheelhouse
set -e
cd "$(dirname "$0")"
if [ ! -x .venv/bin/python ] || ! .venv/bin/python -c "import z3, cvc5" 2>/dev/null; then
  rm -rf .venv
  /venv/bin/python -m venv .venv
  echo "import site; site.addsitedir('/venv/lib/python3.12/site-packages')" > .venv/lib/python3.12/site-packages/_venv_overlay.pth
  PIP_NO_INDEX=1 .venv/bin/pip install --no-index --find-links /opt/veriftools/wheels z3-solver cvc5 >/dev/null
fi
.venv/bin/python -c "import z3, cvc5, numpy, taurex; print('setup ok', z3.get_version_string())"
