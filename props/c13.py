"""C13 -- restricting the spectral grid never changes the values computed on it."""
import numpy as np

from symx.harness import harness
from .common import SigmaContribution, state_model, oarr, patched
from .c01 import _atmosphere, _run
from . import stubs

FUNCS = ['taurex.util.util:clip_native_to_wngrid', 'taurex.model.simplemodel:SimpleForwardModel.model',
         'taurex.model.simplemodel:SimpleForwardModel.nativeWavenumberGrid', 'taurex.opacity.opacity:Opacity.opacity',
         'taurex.opacity.ktables.ktable:KTable.opacity', 'taurex.model.transmission:TransmissionModel.path_integral',
         'taurex.model.emission:EmissionModel.evaluate_emission', 'taurex.binning.fluxbinner:FluxBinner.bindown',
         'taurex.util.util:compute_bin_edges']
STUBS = ['np.interp -> numpy-exact contract model', 'scipy.interpolate.interp1d -> sorted piecewise-linear with fill values',
         'exp UF; black_body UF', 'profile state constructed directly']


@harness('C13', 'columns',
         quick=[dict(n=2, kind='transmission'), dict(n=2, kind='emission')],
         thorough=[dict(n=3, kind='transmission', _shards=4), dict(n=3, kind='emission', _shards=4), dict(n=4, kind='transmission', _shards=8)],
         covers=['unsaturated', 'saturated_somewhere'], functions=FUNCS, stubs=STUBS, shard_depth=4)
def columns(ctx, n, kind):
    """Two real path_integral runs of the same atmosphere, one on the grid {v1,v2} and one on the sub-grid {v1} (the
    weighted cross-sections restricted accordingly): the value at v1 is identical, exactly when no layer saturates
    and within the licensed cut-off otherwise (restricting the grid changes min_v tau, i.e. which layers take the
    early exit)."""
    from taurex.model import TransmissionModel, EmissionModel
    import taurex.model.emission as em
    import taurex.data.stellar.star as st
    from .c02 import _bb_stub, _B
    Rp, Rs, dz, z, rho = _atmosphere(ctx, n)
    T = ctx.reals('T', n, gt=0, hint=(300, 3000))
    s1 = ctx.array('s1', (n, 2), ge=0, hint=(0, 6))
    s2 = ctx.array('s2', (n, 2), ge=0, hint=(0, 6))
    wn_full = np.array([1000.0, 2000.0])
    wn_sub = np.array([1000.0])
    dl = [oarr([ctx.real('dl_%d_%d' % (l, k), ge=0, hint=(0, 3)) for k in range(n - l)], ctx.sym) for l in range(n)]
    envs = [patched(em, black_body=_bb_stub), patched(st, black_body=_bb_stub)] if ctx.sym else []
    for e in envs:
        e.__enter__()
    try:
        def run(wn, cols):
            klass = TransmissionModel if kind == 'transmission' else EmissionModel
            kw = {} if kind == 'transmission' else dict(ngauss=2)
            m = state_model(klass, n, wn, Rp, Rs, z, dz, rho, T=T, Tstar=5000.0, **kw)
            m.add_contribution(SigmaContribution.make('a', s1[:, cols], 'sigma', 0))
            m.add_contribution(SigmaContribution.make('b', s2[:, cols], 'sigma', 1))
            if kind == 'transmission':
                d, t, tau = _run(ctx, m, wn, dl)
                return d, (tau, t)
            m._star.initialize(wn)
            for c in m.contribution_list:
                c.prepare(m, wn)
            out, _ = m.path_integral(wn, False)
            return out, None
        full, tau_full = run(wn_full, slice(0, 2))
        sub, tau_sub = run(wn_sub, slice(0, 1))
        if kind == 'transmission':
            (tau_full, tr_full), (tau_sub, tr_sub) = tau_full, tau_sub
    finally:
        for e in reversed(envs):
            e.__exit__(None, None, None)
    ctx.goal('shapes', len(full) == 2 and len(sub) == 1)
    if kind == 'transmission':
        # a layer whose first absorber alone exceeds 10 at v1 is where the two runs may differ
        first = [sum((s1[k + l, 0] * rho[k + l] * dl[l][k] for k in range(1, n - l)), s1[l, 0] * rho[l] * dl[l][0]) for l in range(n)]
        sat_any = ctx.or_([ctx.lt(10.0, first[l]) for l in range(n)])
        ctx.cover_if('saturated_somewhere', sat_any)
        ctx.cover_if('unsaturated', ctx.not_(sat_any))
        for l in range(n):
            ctx.goal('tau_column[%d]' % l, ctx.or_(ctx.eq(tau_sub[l, 0], tau_full[l, 0]),
                                                   ctx.and_(ctx.lt(10.0, tau_sub[l, 0]), ctx.lt(10.0, tau_full[l, 0]))))
        ctx.goal('depth_exact_if_unsaturated', ctx.or_(ctx.eq(sub[0], full[0]), sat_any))
        # per layer the transmittance at v1 is the same, or both runs are below exp(-10) there: the depths then differ
        # by at most exp(-10) * sum 2(Rp+z)dz/Rs^2 (each layer enters the depth integral linearly)
        E10 = ctx.exp(-10.0)
        for l in range(n):
            ctx.goal('transmittance_within_cutoff[%d]' % l, ctx.or_(ctx.eq(tr_sub[l, 0], tr_full[l, 0]),
                                                                   ctx.and_(ctx.lt(tr_sub[l, 0], E10), ctx.lt(tr_full[l, 0], E10))))
    else:
        col = [sum(((s1[k, 0] + s2[k, 0]) * rho[k] * dz[k] for k in range(l + 1, n)), (s1[l, 0] + s2[l, 0]) * rho[l] * dz[l]) for l in range(n)]
        sat_any = ctx.or_([ctx.le(10.0, col[l]) for l in range(n)])
        ctx.cover_if('saturated_somewhere', sat_any)
        ctx.cover_if('unsaturated', ctx.not_(sat_any))
        ctx.goal('flux_exact_if_unsaturated', ctx.or_(ctx.eq(sub[0], full[0], scale=None if ctx.sym else 1e-30), sat_any))
        E10 = ctx.exp(-10.0)
        slack = sum((_B(ctx, 1000.0, T[l]) for l in range(1, n)), _B(ctx, 1000.0, T[0])) / _B(ctx, 1000.0, 5000.0) * (Rp / Rs) * (Rp / Rs) * E10
        ctx.goal('flux_within_cutoff', ctx.and_(ctx.le(sub[0] - slack, full[0], scale=None if ctx.sym else 1e-30),
                                                ctx.le(full[0] - slack, sub[0], scale=None if ctx.sym else 1e-30)))


def _opacity_double(ctx, native, col, ktable=0):
    from taurex.opacity.opacity import Opacity
    from taurex.opacity.ktables.ktable import KTable
    base = (KTable, Opacity) if ktable else (Opacity,)

    class _Op(*base):
        def __init__(self):
            Opacity.__init__(self, 'double')

        @property
        def wavenumberGrid(self):
            return native

        @property
        def weights(self):
            return np.ones(ktable) / ktable

        def compute_opacity(self, temperature, pressure, wngrid=None):
            return col[wngrid]
    return _Op()


@harness('C13', 'opacity_selection',
         quick=[dict(nn=3, nr=2, ktable=0, _shards=4), dict(nn=3, nr=2, ktable=2, _shards=4), dict(nn=3, nr=3, ktable=0, native_points=True),
                dict(nn=4, nr=3, ktable=0, _shards=8)],
         thorough=[dict(nn=4, nr=2, ktable=0, _shards=8), dict(nn=4, nr=3, ktable=0, _shards=16), dict(nn=4, nr=2, ktable=2, _shards=8),
                   dict(nn=4, nr=4, ktable=0, native_points=True), dict(nn=4, nr=3, ktable=2, native_points=True)],
         covers=['between_nodes'], functions=FUNCS, stubs=STUBS, shard_depth=4, max_paths=60000,
         outside=['requested grids that select no native point (numpy raises on the empty interpolation table)'])
def opacity_selection(ctx, nn, nr, ktable, native_points=False):
    """Real Opacity.opacity / KTable.opacity with a symbolic increasing native grid, a symbolic increasing requested
    grid and a symbolic opacity column: requested == a contiguous run of native points => the native values
    unchanged; otherwise every returned value lies between the two neighbouring native values (the edge value
    outside the selected range)."""
    import scipy.interpolate as si
    native = ctx.increasing('nat', nn, gt=0)
    shape = (nn, ktable) if ktable else (nn,)
    col = ctx.array('k', shape, ge=0, hint=(0, 5))
    if native_points:
        start = 0 if nr == nn else 1
        req = native[start:start + nr].copy()
    else:
        req = ctx.increasing('req', nr, gt=0)
        # the requested range selects at least two native points (numpy's interpolation table)
        ctx.assume(ctx.and_(ctx.le(req[0], native[1]), ctx.le(native[nn - 2], req[nr - 1])))
        ctx.cover_if('between_nodes', ctx.and_(ctx.lt(native[0], req[0]), ctx.lt(req[0], native[1])))
    op = _opacity_double(ctx, native, col, ktable)
    env = patched(si, interp1d=stubs.Interp1dModel) if (ctx.sym and ktable) else patched(si)
    with env:
        res = np.asarray(op.opacity(1000.0, 1e4, req))
    eshape = (nr, ktable) if ktable else (nr,)
    ctx.goal('shape', res.shape == eshape)
    if res.shape != eshape:
        return
    if native_points:
        ctx.cover('between_nodes')
        start = 0 if nr == nn else 1
        for i in range(nr):
            for g in (range(ktable) if ktable else [None]):
                a, b = (res[i], col[start + i]) if g is None else (res[i, g], col[start + i, g])
                ctx.goal('native_unchanged[%d,%s]' % (i, g), ctx.eq(a, b))
        return
    for i in range(nr):
        for g in (range(ktable) if ktable else [None]):
            v = res[i] if g is None else res[i, g]
            c = (lambda j: col[j]) if g is None else (lambda j, g=g: col[j, g])
            # neighbouring native values: native[j] <= req[i] <= native[j+1]; outside the native range: the edge value
            alts = [ctx.and_(ctx.le(req[i], native[0]), ctx.or_(ctx.eq(v, c(0)), ctx.eq(v, c(1)), _btw(ctx, v, c(0), c(1)))),
                    ctx.and_(ctx.le(native[nn - 1], req[i]), ctx.or_(ctx.eq(v, c(nn - 1)), _btw(ctx, v, c(nn - 2), c(nn - 1))))]
            for j in range(nn - 1):
                alts.append(ctx.and_(ctx.le(native[j], req[i]), ctx.le(req[i], native[j + 1]), _btw(ctx, v, c(j), c(j + 1))))
            ctx.goal('between_neighbours[%d,%s]' % (i, g), ctx.or_(alts))
            if 0 < i < nr - 1:
                # a requested point lying strictly between two native points that are BOTH inside the requested range does
                # not depend on which other points were requested: it is their linear interpolant.  (Points next to the
                # ends of the range, whose outer neighbour is not selected, are clamped -- see the recorded finding.)
                for j in range(nn - 1):
                    inside = ctx.and_(ctx.lt(native[j], req[i]), ctx.lt(req[i], native[j + 1]),
                                      ctx.le(req[0], native[j]), ctx.le(native[j + 1], req[nr - 1]))
                    ctx.goal('interior_is_interpolant[%d,%s,%d]' % (i, g, j), ctx.implies(
                        inside, ctx.eq(v, c(j) + (c(j + 1) - c(j)) * (req[i] - native[j]) / (native[j + 1] - native[j]))))


def _btw(ctx, v, a, b):
    return ctx.or_(ctx.and_(ctx.le(a, v), ctx.le(v, b)), ctx.and_(ctx.le(b, v), ctx.le(v, a)))


@harness('C13', 'native_grid', quick=[dict()], functions=FUNCS)
def native_grid(ctx):
    """Real nativeWavenumberGrid: the longest grid among the active molecules (first such when tied)."""
    from taurex.model import TransmissionModel
    import taurex.cache.opacitycache as oc
    from taurex.cache import GlobalCache
    g1, g2, g3 = np.array([1.0, 2.0]), np.array([1.0, 1.5, 2.0, 2.5]), np.array([1.0, 2.0, 3.0])

    class _X(object):
        def __init__(self, g):
            self.wavenumberGrid = g

    class _C(object):
        d = {'H2O': _X(g1), 'CH4': _X(g2), 'CO2': _X(g3)}

        def __call__(self):
            return self

        def __getitem__(self, k):
            return self.d[k]

    class _Chem(object):
        activeGases = ['H2O', 'CH4', 'CO2']
    GlobalCache()['opacity_method'] = None
    m = TransmissionModel()
    m._chemistry = _Chem()
    with patched(oc, OpacityCache=_C()):
        got = m.nativeWavenumberGrid
    ctx.goal('longest', got is g2)


@harness('C13', 'clip_binning',
         quick=[dict(nn=4, spacing='uniform', _shards=4), dict(nn=5, spacing='uniform', _shards=8), dict(nn=4, spacing='uniform', obs3=True, _shards=16)],
         thorough=[dict(nn=5, spacing='uniform', _shards=4), dict(nn=6, spacing='uniform', _shards=8), dict(nn=4, spacing='free', _shards=8),
                   dict(nn=5, spacing='uniform', obs3=True, _shards=16), dict(nn=4, spacing='free', obs3=True, _shards=16)],
         functions=FUNCS, stubs=STUBS, shard_depth=10, max_paths=60000, covers=['something_clipped'],
         outside=['more native points / observation bins than listed'])
def clip_binning(ctx, nn, spacing, obs3=False):
    """Real clip_native_to_wngrid + FluxBinner (as SimpleForwardModel.model does for an observation): for a symbolic
    increasing native grid finer than half the widest mid-point bin of the observation grid, and observation bins no
    wider than that bin, binning the model restricted to the clipped grid equals binning the full native model, bin
    by bin."""
    from taurex.util.util import clip_native_to_wngrid, compute_bin_edges
    from taurex.binning.fluxbinner import FluxBinner
    obs = np.array([100.0, 101.0, 104.0]) if obs3 else np.array([100.0, 104.0])     # obs3: non-uniform bin widths 1, 2, 3
    Wmax = float(compute_bin_edges(obs)[-1].max())          # 10
    nobs = len(obs)
    ow = ctx.reals('obs_width', nobs, gt=0, hint=(0.5, 3))
    for i in range(nobs):
        ctx.assume(ow[i] <= Wmax)
    if spacing == 'uniform':
        x0 = ctx.real('nat0', hint=(88, 100))
        d = ctx.real('step', gt=0, hint=(0.5, 1.9))
        ctx.assume(d < Wmax / 2)
        native = oarr([x0 + k * d for k in range(nn)], ctx.sym)
    else:
        native = ctx.increasing('nat', nn)
        for k in range(nn - 1):
            ctx.assume(native[k + 1] - native[k] < Wmax / 2)
    f = ctx.reals('f', nn, hint=(0, 3))
    clipped = clip_native_to_wngrid(native, obs)
    keep = [any(clipped[j] is native[i] for j in range(len(clipped))) for i in range(nn)] if ctx.sym else \
        [bool(np.any(clipped == native[i])) for i in range(nn)]
    if len(clipped) < 2:
        return            # nothing to bin (the model would have no grid): outside the clause
    if len(clipped) < nn:
        ctx.cover('something_clipped')
    fc = oarr([f[i] for i in range(nn) if keep[i]], ctx.sym)
    b = FluxBinner(obs.copy(), ow.copy())
    full = b.bindown(native.copy(), f.copy())[1]
    sub = b.bindown(clipped.copy(), fc.copy())[1]
    # only bins that the full native grid covers completely are compared (the clause is about clipping, not about
    # bins hanging over the end of the native grid)
    e_full = compute_bin_edges(native)[0]
    for j in range(nobs):
        covered = ctx.and_(ctx.le(e_full[0], obs[j] - ow[j] / 2), ctx.le(obs[j] + ow[j] / 2, e_full[-1]))
        ctx.goal('same_binned_value[%d]' % j, ctx.implies(covered, ctx.eq(sub[j], full[j], scale=None if ctx.sym else 1.0)))


@harness('C13', 'two_molecules', quick=[dict(na=4, nb=3)], thorough=[dict(na=4, nb=3), dict(na=5, nb=3), dict(na=4, nb=4)],
         functions=FUNCS + ['taurex.contributions.absorption:AbsorptionContribution.prepare_each'], stubs=STUBS, shard_depth=6, max_paths=60000,
         covers=['edge_between_nodes'],
         outside=['more than two molecules'])
def two_molecules(ctx, na, nb):
    """Real AbsorptionContribution.prepare + real Opacity.opacity for two molecules with DIFFERENT native grids (A: the
    model's native grid, B: a coarser symbolic grid spanning it): the weighted opacity prepared on a contiguous
    sub-range of the model grid equals, at every point of the sub-range, the one prepared on the full grid."""
    import taurex.contributions.absorption as ab
    from taurex.cache import GlobalCache
    from .c03 import _Chem, _Cache
    A = ctx.increasing('A', na, gt=0)
    B = ctx.increasing('B', nb, gt=0)
    # B shares the end points of A and is coarser inside, so the full-grid computation is well defined
    ctx.assume(ctx.and_(ctx.eq(B[0], A[0]), ctx.eq(A[na - 1], B[nb - 1])))
    ka = ctx.reals('ka', na, ge=0, hint=(0, 5))
    kb = ctx.reals('kb', nb, ge=0, hint=(0, 5))
    mix = {'A': oarr([1.0], ctx.sym), 'B': oarr([1.0], ctx.sym)}
    opA = _opacity_double(ctx, A, ka)
    opB = _opacity_double(ctx, B, kb)
    cache = _Cache({'A': opA, 'B': opB})

    class _Model(object):
        nLayers = 1
        chemistry = _Chem(['A', 'B'], [], mix)
        temperatureProfile = np.array([1000.0])
        pressureProfile = np.array([1e4])
    GlobalCache()['opacity_method'] = None
    sub = A[1:na - 1].copy()
    with patched(ab, OpacityCache=cache, KTableCache=cache):
        c = ab.AbsorptionContribution()
        c.prepare(_Model(), A.copy())
        full = np.array(c.sigma_xsec, dtype=object if ctx.sym else float).copy()
        try:
            c.prepare(_Model(), sub)
            part = np.array(c.sigma_xsec, dtype=object if ctx.sym else float).copy()
        except ValueError as ex:
            part = None

    # region of the recorded finding: an end point of the sub-range lies strictly between two nodes of molecule B
    def strictly_between(x):
        return ctx.or_([ctx.and_(ctx.lt(B[j], x), ctx.lt(x, B[j + 1])) for j in range(nb - 1)])
    edge = ctx.or_(strictly_between(sub[0]), strictly_between(sub[-1]))
    ctx.region('subrange_end_between_other_grid_nodes', edge)
    ctx.cover_if('edge_between_nodes', edge)
    ctx.cover_if('edge_on_node', ctx.not_(edge))
    if part is None:
        ctx.goal('same_at_shared_point[exception]', False)
        return
    ctx.goal('shapes', full.shape == (1, na) and part.shape == (1, na - 2))
    for i in range(na - 2):
        ctx.goal('same_at_shared_point[%d]' % i, ctx.eq(part[0, i], full[0, i + 1]))
