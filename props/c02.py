"""C02 -- emission / direct-image spectra equal the documented layered thermal integral."""
import math

import numpy as np

from symx.harness import harness
from symx.core import Sym, uf_apply
from .common import SigmaContribution, state_model, oarr, patched
from .c01 import _contribs

FUNCS = ['taurex.model.emission:EmissionModel.evaluate_emission', 'taurex.model.emission:EmissionModel.path_integral',
         'taurex.model.emission:EmissionModel.compute_final_flux', 'taurex.model.emission:EmissionModel.set_num_gauss',
         'taurex.model.directimage:DirectImageModel.compute_final_flux', 'taurex.data.stellar.star:Star.initialize',
         'taurex.util.emission:black_body_numba', 'taurex.util.emission:black_body_numba_II', 'taurex.util.emission:black_body_numpy',
         'taurex.contributions.contribution:contribute_tau', 'taurex.contributions.cia:contribute_cia']
STUBS = ['black_body(nu,T) -> UF B(nu,T): positive, strictly increasing in T (the Planck kernels are checked against the closed '
         'form in the planck harness)', 'np.polynomial.legendre.leggauss(n) -> fresh nodes in (-1,1), weights >0, sum w = 2, sum w x = 0',
         'exp: UF with positivity, exp(0)=1, monotonicity instances (incl. exp(-10))', 'profile state constructed directly']


def _bb_stub(wngrid, T):
    out = np.empty(len(wngrid), dtype=object)
    for i, v in enumerate(wngrid):
        out[i] = uf_apply('B', float(v), T)
    return out


def _leggauss_stub(ctx, n):
    def f(k):
        assert k == n
        x = ctx.reals('gl_x', n)
        w = ctx.reals('gl_w', n, gt=0)
        for i in range(n):
            ctx.assume(ctx.and_(ctx.lt(-1.0, x[i]), ctx.lt(x[i], 1.0)))
        ctx.assume(ctx.eq(sum(w[1:], w[0]), 2.0))
        ctx.assume(ctx.eq(sum((w[i] * x[i] for i in range(1, n)), w[0] * x[0]), 0.0))
        return x, w
    return f


def _build(ctx, klass, n, nw, kinds, ng, T, Tstar, concrete_geom=False, concrete_quad=False, dist=None):
    import taurex.model.emission as em
    import taurex.data.stellar.star as st
    Rp = ctx.real('Rp', gt=0, hint=(1, 10))
    Rs = ctx.real('Rs', gt=0, hint=(10, 100))
    if concrete_geom:
        dz = np.ones(n)
        rho = np.ones(n)
    else:
        dz = ctx.reals('dz', n, gt=0, hint=(0.1, 5))
        rho = ctx.reals('rho', n, gt=0, hint=(0.1, 5))
    z = np.zeros(n)
    wn = np.arange(1, nw + 1) * 1000.0
    cs, sig = _contribs(ctx, n, nw, kinds, hint=(0, 20))
    envs = []
    if ctx.sym:
        envs = [patched(em, black_body=_bb_stub), patched(st, black_body=_bb_stub)]
        if not concrete_quad:
            envs.append(patched(np.polynomial.legendre, leggauss=_leggauss_stub(ctx, ng)))
    for e in envs:
        e.__enter__()
    try:
        m = state_model(klass, n, wn, Rp, Rs, z, dz, rho, T=T, Tstar=Tstar, ngauss=ng)
        if dist is not None:
            m._star.distance = dist
        for c in cs:
            m.add_contribution(c)
        m._star.initialize(wn)
        for c in m.contribution_list:
            c.prepare(m, wn)
        out, tau = m.path_integral(wn, False)
        I, _mu, _w, _ = m.evaluate_emission(wn, False)
    finally:
        for e in reversed(envs):
            e.__exit__(None, None, None)
    mu = m._mu_quads
    w = m._wi_quads
    return dict(m=m, out=out, I=I, mu=mu, w=w, Rp=Rp, Rs=Rs, dz=dz, rho=rho, sig=sig, wn=wn, kinds=kinds)


def _B(ctx, v, T):
    if ctx.sym:
        return uf_apply('B', float(v), T)
    from taurex.util.emission import black_body
    return black_body(np.array([float(v)]), float(T))[0]


def _vertical_tau(r, n, nw):
    """tau[l][v] = optical depth from the bottom of layer l to the top of the atmosphere (independent sum)"""
    tau = [[0.0] * nw for _ in range(n + 1)]
    for l in range(n - 1, -1, -1):
        for v in range(nw):
            t = tau[l + 1][v]
            for ci, kind in enumerate(r['kinds']):
                d = r['rho'][l] * r['rho'][l] if kind == 'cia' else r['rho'][l]
                t = t + r['sig'][ci][l, v] * d * r['dz'][l]
            tau[l][v] = t
    return tau


def _spec_intensity(ctx, r, n, nw, ng, T, clamp=True):
    """documented integral; with clamp=True the transmittance from level l upward is replaced by 0 when the
    vertical optical depth above l is >= 10 at every wavenumber (the licensed cut-off; the surface term is not cut)"""
    tau = _vertical_tau(r, n, nw)
    I = [[None] * nw for _ in range(ng)]
    clamped = [None] * (n + 1)
    for l in range(n + 1):
        # no forking here: the clamp condition stays inside the formula (the solver splits on it)
        clamped[l] = ctx.and_([ctx.le_strict(10.0, tau[l][v]) for v in range(nw)]) if clamp else False
    for q in range(ng):
        for v in range(nw):
            def t(l):
                e = ctx.exp(-tau[l][v] * (1.0 / r['mu'][q]))
                return ctx.ite(clamped[l], 0.0, e) if clamp else e
            acc = _B(ctx, r['wn'][v], T[0]) / math.pi * ctx.exp(-tau[0][v] * (1.0 / r['mu'][q]))
            for l in range(n):
                acc = acc + _B(ctx, r['wn'][v], T[l]) / math.pi * (t(l + 1) - t(l))
            I[q][v] = acc
    return I, tau, clamped


@harness('C02', 'integral',
         quick=[dict(n=2, nw=1, kinds=['sigma'], ng=1), dict(n=2, nw=2, kinds=['sigma', 'cia'], ng=2, _shards=4),
                dict(n=3, nw=1, kinds=['sigma'], ng=2, _shards=4)],
         thorough=[dict(n=2, nw=2, kinds=['sigma', 'cia'], ng=2, _shards=4), dict(n=3, nw=2, kinds=['sigma', 'sigma'], ng=2, _shards=16),
                   dict(n=3, nw=1, kinds=['sigma', 'cia'], ng=3, _shards=8), dict(n=4, nw=1, kinds=['sigma'], ng=2, _shards=8),
                   dict(n=4, nw=2, kinds=['sigma'], ng=1, _shards=16)],
         covers=['unclamped', 'clamped'], functions=FUNCS, stubs=STUBS, shard_depth=4, max_paths=40000,
         outside=['quadrature accuracy for non-linear integrands', 'PHOENIX stars', 'counts beyond those listed'])
def integral(ctx, n, nw, kinds, ng):
    """Real EmissionModel.evaluate_emission/path_integral/compute_final_flux/set_num_gauss (leggauss contract stub)
    on a directly constructed atmosphere: per quadrature point the intensity equals surface term + sum_l
    B(T_l)/pi (t(l+1)-t(l)) with the documented clamp rule, flux = 2 pi sum_q I_q w_q mu_q, eclipse =
    flux/B(T*) (Rp/Rs)^2."""
    from taurex.model import EmissionModel
    T = ctx.reals('T', n, gt=0, hint=(300, 3000))
    Ts = ctx.real('Tstar', gt=0, hint=(3000, 8000))
    r = _build(ctx, EmissionModel, n, nw, kinds, ng, T, Ts)
    spec, tau, clamped = _spec_intensity(ctx, r, n, nw, ng, T)
    ctx.cover_if('clamped', ctx.or_(clamped))
    ctx.cover_if('unclamped', ctx.not_(ctx.or_(clamped)))
    ctx.goal('shapes', np.shape(r['I']) == (ng, nw) and np.shape(r['out']) == (nw,))
    for q in range(ng):
        for v in range(nw):
            ctx.goal('intensity[%d,%d]' % (q, v), ctx.eq(r['I'][q, v], spec[q][v], scale=None if ctx.sym else 1e-30))
    # quadrature mapping used by the code: nodes in (0,1), weights sum to 1, sum w mu = 1/2
    sw = sum(r['w'][1:], r['w'][0])
    swm = sum((r['w'][q] * r['mu'][q] for q in range(1, ng)), r['w'][0] * r['mu'][0])
    ctx.goal('quadrature', ctx.and_(ctx.eq(sw, 1.0), ctx.eq(swm, 0.5), ctx.and_([ctx.and_(ctx.lt(0.0, r['mu'][q]), ctx.lt(r['mu'][q], 1.0)) for q in range(ng)])))


@harness('C02', 'flux',
         quick=[dict(nw=1, ng=1), dict(nw=2, ng=2), dict(nw=1, ng=3)], thorough=[dict(nw=2, ng=2), dict(nw=2, ng=4), dict(nw=3, ng=3)],
         functions=FUNCS, stubs=STUBS + ['evaluate_emission -> ARBITRARY symbolic intensities (compositional cut: the intensity formula is '
                                         'decided by the integral harness)'])
def flux(ctx, nw, ng):
    """Real path_integral + compute_final_flux for arbitrary intensities I[q,v] handed back by evaluate_emission:
    eclipse depth = 2 pi sum_q I_q w_q mu_q / B(T*) (Rp/Rs)^2 with the code's own quadrature mapping."""
    from taurex.model import EmissionModel
    import taurex.model.emission as em
    import taurex.data.stellar.star as st
    Rp = ctx.real('Rp', gt=0, hint=(1, 10))
    Rs = ctx.real('Rs', gt=0, hint=(10, 100))
    Ts = ctx.real('Tstar', gt=0, hint=(3000, 8000))
    I = ctx.array('I', (ng, nw), ge=0, hint=(0, 10))
    wn = np.arange(1, nw + 1) * 1000.0
    envs = [patched(st, black_body=_bb_stub), patched(np.polynomial.legendre, leggauss=_leggauss_stub(ctx, ng))] if ctx.sym else []
    for e in envs:
        e.__enter__()
    try:
        m = state_model(EmissionModel, 2, wn, Rp, Rs, np.zeros(2), np.ones(2), np.ones(2), T=None, Tstar=Ts, ngauss=ng)
        m._star.initialize(wn)
        real_ee = m.evaluate_emission

        def fake(wngrid, rc):
            return I, 1.0 / m._mu_quads[:, None], m._wi_quads[:, None], np.zeros((2, nw))
        m.evaluate_emission = fake
        out, _ = m.path_integral(wn, False)
    finally:
        for e in reversed(envs):
            e.__exit__(None, None, None)
    mu, w = m._mu_quads, m._wi_quads
    for v in range(nw):
        fl = 0.0
        for q in range(ng):
            fl = fl + I[q, v] * w[q] * mu[q]
        fl = fl * 2.0 * math.pi
        ctx.goal('eclipse[%d]' % v, ctx.eq(out[v] * _B(ctx, wn[v], Ts) * Rs * Rs, fl * Rp * Rp, scale=None if ctx.sym else 1e-3))


@harness('C02', 'isothermal',
         quick=[dict(n=2, nw=1, kinds=['sigma'], ng=2), dict(n=3, nw=1, kinds=['sigma', 'cia'], ng=2, _shards=4)],
         thorough=[dict(n=2, nw=2, kinds=['sigma', 'cia'], ng=2, _shards=4), dict(n=3, nw=2, kinds=['sigma'], ng=2, concrete_quad=True, _shards=8),
                   dict(n=3, nw=1, kinds=['sigma'], ng=2, _shards=4), dict(n=4, nw=1, kinds=['sigma', 'sigma'], ng=2, concrete_quad=True, _shards=8)],
         covers=['unclamped', 'clamped'], functions=FUNCS, stubs=STUBS, shard_depth=4, max_paths=40000)
def isothermal(ctx, n, nw, kinds, ng, concrete_quad=False):
    """Same real run with one temperature for every layer: eclipse depth == B(T)/B(T*) (Rp/Rs)^2 exactly on
    unclamped paths and within the factor [1, 1+exp(-10)] otherwise, whatever the composition."""
    from taurex.model import EmissionModel
    T0 = ctx.real('T', gt=0, hint=(300, 3000))
    T = oarr([T0] * n, ctx.sym)
    Ts = ctx.real('Tstar', gt=0, hint=(3000, 8000))
    r = _build(ctx, EmissionModel, n, nw, kinds, ng, T, Ts, concrete_quad=concrete_quad)
    tau = _vertical_tau(r, n, nw)
    E10 = ctx.exp(-10.0)
    for v in range(nw):
        ratio = _B(ctx, r['wn'][v], T0) / _B(ctx, r['wn'][v], Ts) * (r['Rp'] / r['Rs']) * (r['Rp'] / r['Rs'])
        sat = ctx.and_([ctx.le(10.0, tau[0][u]) for u in range(nw)])
        ctx.cover_if('clamped', sat)
        ctx.cover_if('unclamped', ctx.not_(sat))
        ctx.goal('exact_unless_saturated[%d]' % v, ctx.or_(ctx.eq(r['out'][v], ratio), sat))
        ctx.goal('within_cutoff[%d]' % v, ctx.and_(ctx.le(ratio, r['out'][v]), ctx.le(r['out'][v], ratio * (1.0 + E10))))


@harness('C02', 'bounds',
         quick=[dict(n=2, nw=1, kinds=['sigma'], ng=2), dict(n=3, nw=1, kinds=['sigma'], ng=1, _shards=4)],
         thorough=[dict(n=2, nw=2, kinds=['sigma'], ng=2, _shards=4), dict(n=3, nw=1, kinds=['sigma', 'sigma'], ng=2, _shards=8),
                   dict(n=4, nw=1, kinds=['sigma'], ng=2, _shards=8)],
         functions=FUNCS, stubs=STUBS[:1] + STUBS[2:] + ['real leggauss nodes (concrete)', 'unit layer thickness and density (concrete)'],
         shard_depth=4, max_paths=40000)
def bounds(ctx, n, nw, kinds, ng):
    """Real run with symbolic temperatures and cross-sections (unit geometry, real Gauss-Legendre nodes): the
    eclipse depth lies between the blackbody ratios of the coldest and hottest layer, up to the exp(-10) cut-off."""
    from taurex.model import EmissionModel
    T = ctx.reals('T', n, gt=0, hint=(300, 3000))
    Ts = ctx.real('Tstar', gt=0, hint=(3000, 8000))
    r = _build(ctx, EmissionModel, n, nw, kinds, ng, T, Ts, concrete_geom=True, concrete_quad=True)
    E10 = ctx.exp(-10.0)
    g = (r['Rp'] / r['Rs']) * (r['Rp'] / r['Rs'])
    for v in range(nw):
        Bs = [_B(ctx, r['wn'][v], T[l]) for l in range(n)]
        Bstar = _B(ctx, r['wn'][v], Ts)
        ctx.goal('ge_coldest[%d]' % v, ctx.or_([ctx.le(b / Bstar * g, r['out'][v]) for b in Bs]))
        ctx.goal('le_hottest[%d]' % v, ctx.or_([ctx.le(r['out'][v], b / Bstar * g * (1.0 + E10)) for b in Bs]))


@harness('C02', 'directimage', quick=[dict(n=2, nw=1, kinds=['sigma'], ng=1)], thorough=[dict(n=2, nw=2, kinds=['sigma'], ng=2)],
         functions=FUNCS, stubs=STUBS)
def directimage(ctx, n, nw, kinds, ng):
    """Real DirectImageModel.path_integral: returned flux vs the documented flux * Rp^2/d^2 (d = distance in
    parsecs converted to metres).  The code returns exactly one half of it (recorded finding); any other
    deviation is still reported."""
    from taurex.model.directimage import DirectImageModel
    T = ctx.reals('T', n, gt=0, hint=(300, 3000))
    Ts = ctx.real('Tstar', gt=0, hint=(3000, 8000))
    d = ctx.real('distance_pc', gt=0, hint=(1, 100))
    r = _build(ctx, DirectImageModel, n, nw, kinds, ng, T, Ts, dist=d)
    dm = d * 3.08567758e16
    for v in range(nw):
        flux = 0.0
        for q in range(ng):
            flux = flux + r['I'][q, v] * r['w'][q] * r['mu'][q]
        flux = flux * 2.0 * math.pi
        doc = flux * r['Rp'] * r['Rp'] / (dm * dm)
        ctx.goal('flux_is_documented[%d]' % v, ctx.eq(r['out'][v], doc))
        ctx.goal('flux_is_half_documented[%d]' % v, ctx.eq(r['out'][v] * 2.0, doc))


@harness('C02', 'planck', quick=[dict()], functions=FUNCS,
         stubs=['exp: UF', 'constants PLANCK, SPDLIGT, KBOLTZ as the exact rationals of their doubles'])
def planck(ctx):
    """The Planck kernels (black_body_numba via its scalar body, black_body_numba_II) equal
    pi 2hc^2/lambda^5 / (exp(hc/(lambda k T)) - 1) 1e-6 with lambda = 1e-2/nu metres, and the selected
    black_body is one of them."""
    import taurex.util.emission as ue
    import taurex.constants as tc
    T = ctx.real('T', gt=0)
    nu = ctx.real('nu', gt=0)
    PLANCK, SPDLIGT, KBOLTZ, PI = (ctx.const(k, getattr(tc, k)) for k in ('PLANCK', 'SPDLIGT', 'KBOLTZ', 'PI'))
    conv = 10000 * 1e-6
    conv5 = conv ** 5            # the kernels form lambda^5 from this float constant
    closed = PI * (2.0 * PLANCK * SPDLIGT * SPDLIGT) * 1e-6 / conv5 * (nu * nu * nu * nu * nu) * \
        (1.0 / (ctx.exp((PLANCK * SPDLIGT) * nu / (conv * KBOLTZ * T)) - 1.0))
    ctx.goal('selected_kernel', ue.black_body in (ue.black_body_numba, ue.black_body_numba_II))
    with patched(ue, PLANCK=PLANCK, SPDLIGT=SPDLIGT, KBOLTZ=KBOLTZ, PI=PI):
        if ctx.sym:
            v1 = _vec_body(ue, nu, T)
            arr = np.empty(1, dtype=object)
            arr[0] = nu
            v2 = ue.black_body_numba_II(arr, T)[0]
        else:
            v1 = ue.black_body_numba(np.array([float(nu)]), float(T))[0]
            v2 = ue.black_body_numba_II(np.array([float(nu)]), float(T))[0]
    if ctx.sym:
        # lambda^5 written as (conv/nu)^5 in the vectorised kernel: same value up to the float constant conv5
        lam = conv / nu
        closed1 = (PI * (2.0 * PLANCK * SPDLIGT * SPDLIGT) / (lam * lam * lam * lam * lam)) * \
            (1.0 / (ctx.exp((PLANCK * SPDLIGT) / (lam * KBOLTZ * T)) - 1.0)) * 1e-6
        ctx.goal('numba_kernel', ctx.eq(v1, closed1))
    else:
        ctx.goal('numba_kernel', ctx.eq(v1, closed, scale=1e-300))
    ctx.goal('numba_II_kernel', ctx.eq(v2, closed, scale=None if ctx.sym else 1e-300))


class _NpExp(object):
    def __getattr__(self, k):
        return getattr(np, k)


def _vec_body(ue, nu, T):
    f = ue._black_body_vec
    py = getattr(f, '_dispatcher', None)
    py = getattr(py, 'py_func', None)
    lam = getattr(getattr(ue._convert_lamb, '_dispatcher', None), 'py_func', None)
    return py(lam(nu), T)


@harness('C02', 'integral_ktables',
         quick=[dict(n=2, nw=1, ng=2, nq=2), dict(n=3, nw=1, ng=2, nq=1)],
         thorough=[dict(n=2, nw=2, ng=2, nq=2), dict(n=3, nw=1, ng=3, nq=2), dict(n=4, nw=1, ng=2, nq=2)],
         functions=FUNCS + ['taurex.model.emission:EmissionModel.evaluate_emission_ktables', 'taurex.model.emission:contribute_ktau_emission',
                            'taurex.contributions.absorption:contribute_ktau'],
         stubs=STUBS + ['real Gauss-Legendre nodes (concrete)', 'AbsorptionContribution state (k-coefficients, weights) constructed directly',
                        'ln UF with exp(ln x) = x'],
         outside=['non-molecular contributions mixed into the k-table path'])
def integral_ktables(ctx, n, nw, ng, nq):
    """Correlated-k mode: real evaluate_emission_ktables (+contribute_ktau, contribute_ktau_emission) with arbitrary
    non-negative k-coefficients and weights summing to one: intensity per quadrature angle = surface term + sum_l
    B(T_l)/pi (t(l+1)-t(l)) with t(l) = sum_g w_g exp(-tau_g(l)/mu) and tau_g the column above level l."""
    from taurex.model import EmissionModel
    import taurex.model.emission as em
    import taurex.data.stellar.star as st
    from taurex.cache import GlobalCache
    from .c20 import _absorption, _weights, _ktable
    from .c01 import _atmosphere
    Rp, Rs, dz, z, rho = _atmosphere(ctx, n)
    T = ctx.reals('T', n, gt=0, hint=(300, 3000))
    wn = np.arange(1, nw + 1) * 1000.0
    w = _weights(ctx, ng)
    k = _ktable(ctx, None, ng, False, n, nw)
    envs = [patched(em, black_body=_bb_stub), patched(st, black_body=_bb_stub)] if ctx.sym else []
    for e in envs:
        e.__enter__()
    old = GlobalCache()['opacity_method']
    try:
        GlobalCache()['opacity_method'] = 'ktables'
        m = state_model(EmissionModel, n, wn, Rp, Rs, z, dz, rho, T=T, Tstar=5000.0, ngauss=nq)
        c = _absorption(k, w)
        m.add_contribution(c)
        c.prepare(m, wn)
        I, _mu, _w, _ = m.evaluate_emission(wn, False)
    finally:
        GlobalCache()['opacity_method'] = old
        for e in reversed(envs):
            e.__exit__(None, None, None)
    mu = m._mu_quads
    ctx.goal('shape', np.shape(I) == (nq, nw))
    for q in range(nq):
        for v in range(nw):
            def t(l):
                acc = 0.0
                for g in range(ng):
                    tau = 0.0
                    for l2 in range(l, n):
                        tau = tau + k[l2, v, g] * rho[l2] * dz[l2]
                    acc = acc + w[g] * ctx.exp(-tau * (1.0 / mu[q]))
                return acc
            spec = _B(ctx, wn[v], T[0]) / math.pi * t(0)
            for l in range(n):
                spec = spec + _B(ctx, wn[v], T[l]) / math.pi * ((t(l + 1) if l + 1 < n else 1.0) - t(l))
            ctx.goal('intensity[%d,%d]' % (q, v), ctx.eq(I[q, v], spec, scale=None if ctx.sym else 1e-30))
