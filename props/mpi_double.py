"""Deterministic communicator double for taurex.mpi (injected as a fake `mpi4py`).

Ranks are run one after another.  Phase 1 records what each rank offers to each collective; phase 2
re-runs each rank and serves the full gathered lists (sound because offered values never depend on
gathered ones in the code under test -- checked: the offers of phase 2 must equal those of phase 1).
Every exchanged value passes through a serialiser that preserves values and destroys object identity,
as mpi4py's lowercase (pickle-based) methods do."""
import pickle
import sys
import types

import numpy as np

from symx.core import Sym


def serialise(v):
    if isinstance(v, Sym):
        return Sym(v.t)
    if isinstance(v, np.ndarray) and v.dtype == object:
        out = np.empty(v.shape, dtype=object)
        for idx in np.ndindex(v.shape):
            out[idx] = serialise(v[idx])
        return out
    if isinstance(v, (list, tuple)):
        return type(v)(serialise(x) for x in v)
    if isinstance(v, dict):
        return {k: serialise(x) for k, x in v.items()}
    return pickle.loads(pickle.dumps(v))


class World(object):
    def __init__(self, size):
        self.size = size
        self.rank = 0
        self.phase = 'record'
        self.offers = {r: [] for r in range(size)}
        self.k = 0
        self.mismatch = False

    def collective(self, value):
        r = self.rank
        if self.phase == 'record':
            self.offers[r].append(value)
            return [serialise(value) for _ in range(self.size)]
        k = self.k
        self.k += 1
        try:
            return [serialise(self.offers[q][k]) for q in range(self.size)]
        except IndexError:
            self.mismatch = True
            raise RuntimeError('collective call count differs between ranks (deadlock in real MPI)')


class _Comm(object):
    def __init__(self, world):
        self.w = world

    def Get_size(self):
        return self.w.size

    def Get_rank(self):
        return self.w.rank

    def allgather(self, v):
        return self.w.collective(v)

    def allreduce(self, v, op=None):
        vals = self.w.collective(v)
        acc = vals[0]
        for x in vals[1:]:
            acc = acc + x
        return acc

    def bcast(self, v, root=0):
        return self.w.collective(v)[root]

    def Bcast(self, buf, root=0):
        vals = self.w.collective(buf)
        buf[...] = vals[root]

    def Barrier(self):
        pass

    def Split_type(self, *a):
        return self


def install(world):
    mod = types.ModuleType('mpi4py')
    MPI = types.SimpleNamespace(COMM_WORLD=_Comm(world), SUM='SUM', COMM_TYPE_SHARED=0)
    mod.MPI = MPI
    sys.modules['mpi4py'] = mod
    sys.modules['mpi4py.MPI'] = MPI
    return mod


def uninstall():
    sys.modules.pop('mpi4py', None)
    sys.modules.pop('mpi4py.MPI', None)
    _clear()


def _clear():
    from taurex import mpi
    for f in (mpi.nprocs, mpi.get_rank, mpi.shared_comm, mpi.shared_rank):
        try:
            f.cache_clear()
        except AttributeError:
            pass


def run_ranks(size, fn):
    """fn(rank) -> result ; returns [result per rank] from phase 2"""
    world = World(size)
    install(world)
    try:
        for r in range(size):
            world.rank = r
            _clear()
            try:
                fn(r)
            except Exception:
                pass
        world.phase = 'serve'
        results = []
        for r in range(size):
            world.rank = r
            world.k = 0
            _clear()
            results.append(fn(r))
        return results
    finally:
        uninstall()
