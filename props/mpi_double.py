"""Deterministic communicator double for taurex.mpi (injected as a fake `mpi4py`).

Ranks are run one after another.  Phase 1 records what each rank offers to each collective; phase 2
re-runs each rank and serves the full gathered lists (sound because offered values never depend on
gathered ones in the code under test -- checked: the offers of phase 2 must equal those of phase 1).
Every exchanged value passes through a serialiser that preserves values and destroys object identity,
as mpi4py's lowercase (pickle-based) methods do."""
import pickle
import sys
import types

import numpy as np

from symx.core import Sym


def serialise(v):
    if isinstance(v, Sym):
        return Sym(v.t)
    if isinstance(v, np.ndarray) and v.dtype == object:
        out = np.empty(v.shape, dtype=object)
        for idx in np.ndindex(v.shape):
            out[idx] = serialise(v[idx])
        return out
    if isinstance(v, (list, tuple)):
        return type(v)(serialise(x) for x in v)
    if isinstance(v, dict):
        return {k: serialise(x) for k, x in v.items()}
    return pickle.loads(pickle.dumps(v))


def _same(a, b):
    """structural equality of exchanged values (symbolic leaves compared by term)"""
    if isinstance(a, Sym) or isinstance(b, Sym):
        return isinstance(a, Sym) and isinstance(b, Sym) and a.t.eq(b.t)
    if isinstance(a, np.ndarray) or isinstance(b, np.ndarray):
        if not (isinstance(a, np.ndarray) and isinstance(b, np.ndarray)) or a.shape != b.shape:
            return False
        return all(_same(x, y) for x, y in zip(a.ravel().tolist() if a.dtype != object else list(a.ravel()),
                                                b.ravel().tolist() if b.dtype != object else list(b.ravel())))
    if isinstance(a, (list, tuple)) or isinstance(b, (list, tuple)):
        return type(a) is type(b) and len(a) == len(b) and all(_same(x, y) for x, y in zip(a, b))
    if isinstance(a, float) and isinstance(b, float) and a != a and b != b:
        return True
    try:
        return bool(a == b)
    except Exception:
        return a is b


class World(object):
    def __init__(self, size):
        self.size = size
        self.rank = 0
        self.prev = {r: [] for r in range(size)}      # offers of the previous pass
        self.offers = {r: [] for r in range(size)}    # offers of the current pass
        self.k = 0
        self.incomplete = False

    def collective(self, value):
        r = self.rank
        k = self.k
        self.k += 1
        self.offers[r].append(value)
        out = []
        for q in range(self.size):
            if q == r:
                out.append(serialise(value))
            elif k < len(self.prev[q]):
                out.append(serialise(self.prev[q][k]))
            else:
                self.incomplete = True          # partner's offer not known yet: placeholder, another pass follows
                out.append(serialise(value))
        return out


class _Comm(object):
    def __init__(self, world):
        self.w = world

    def Get_size(self):
        return self.w.size

    def Get_rank(self):
        return self.w.rank

    def allgather(self, v):
        return self.w.collective(v)

    def allreduce(self, v, op=None):
        vals = self.w.collective(v)
        acc = vals[0]
        for x in vals[1:]:
            acc = acc + x
        return acc

    def bcast(self, v, root=0):
        return self.w.collective(v)[root]

    def Bcast(self, buf, root=0):
        vals = self.w.collective(buf)
        buf[...] = vals[root]

    def Barrier(self):
        pass

    def Split_type(self, *a):
        return self


def install(world):
    mod = types.ModuleType('mpi4py')
    MPI = types.SimpleNamespace(COMM_WORLD=_Comm(world), SUM='SUM', COMM_TYPE_SHARED=0)
    mod.MPI = MPI
    sys.modules['mpi4py'] = mod
    sys.modules['mpi4py.MPI'] = MPI
    return mod


def uninstall():
    sys.modules.pop('mpi4py', None)
    sys.modules.pop('mpi4py.MPI', None)
    _clear()


def _clear():
    from taurex import mpi
    for f in (mpi.nprocs, mpi.get_rank, mpi.shared_comm, mpi.shared_rank):
        try:
            f.cache_clear()
        except AttributeError:
            pass


def run_ranks(size, fn, max_passes=6):
    """fn(rank) -> result.  Ranks run one after another; the pass is repeated, each rank being served the other
    ranks' offers of the previous pass, until every collective was served real values and the offers no longer
    change (fixpoint).  A rank that calls fewer/more collectives than its partners (a deadlock under real MPI) or a
    sequence that does not stabilise raises RuntimeError."""
    world = World(size)
    install(world)
    try:
        results = None
        for p in range(max_passes):
            world.offers = {r: [] for r in range(size)}
            world.incomplete = False
            res, errs = [], []
            for r in range(size):
                world.rank = r
                world.k = 0
                _clear()
                try:
                    res.append(fn(r))
                    errs.append(None)
                except Exception as ex:
                    res.append(None)
                    errs.append(ex)
            stable = (not world.incomplete) and all(
                len(world.offers[r]) == len(world.prev[r]) and all(_same(x, y) for x, y in zip(world.offers[r], world.prev[r]))
                for r in range(size))
            world.prev = world.offers
            if stable:
                for ex in errs:
                    if ex is not None:
                        raise ex
                counts = {len(world.offers[r]) for r in range(size)}
                if len(counts) != 1:
                    raise RuntimeError('collective call count differs between ranks (deadlock in real MPI): %s' % counts)
                results = res
                break
        if results is None:
            raise RuntimeError('rank emulation did not reach a fixpoint in %d passes' % max_passes)
        return results
    finally:
        uninstall()
