"""C01 -- transmission spectrum equals the documented transit-depth integral."""
import numpy as np

from symx.harness import harness
from .common import SigmaContribution, state_model, oarr

FUNCS = ['taurex.model.transmission:TransmissionModel.path_integral', 'taurex.model.transmission:TransmissionModel.compute_absorption',
         'taurex.model.transmission:TransmissionModel.compute_path_length_old', 'taurex.contributions.contribution:contribute_tau',
         'taurex.contributions.contribution:Contribution.contribute', 'taurex.contributions.cia:contribute_cia',
         'taurex.contributions.cia:CIAContribution.contribute', 'taurex.model.simplemodel:SimpleForwardModel.model']
STUBS = ['exp: UF with positivity, exp(0)=1, monotonicity instances (incl. the constant exp(-10))',
         'sqrt: UF with sqrt(x)>=0, sqrt(x)^2=x', 'profile state (z, dz, density, weighted cross-sections) constructed directly']


def _atmosphere(ctx, n):
    Rp = ctx.real('Rp', gt=0)
    Rs = ctx.real('Rs', gt=0)
    dz = ctx.reals('dz', n, gt=0)
    zs = [0.0]
    for l in range(n - 1):
        zs.append(zs[-1] + dz[l])
    z = oarr(zs, ctx.sym)
    rho = ctx.reals('rho', n, gt=0)
    return Rp, Rs, dz, z, rho


def _contribs(ctx, n, nw, kinds, tag='s', zero=False, hint=None):
    cs, sig = [], []
    for ci, kind in enumerate(kinds):
        if zero:
            s = np.zeros((n, nw)) if not ctx.sym else np.zeros((n, nw), dtype=object) + 0.0
        else:
            s = ctx.array('%s%d' % (tag, ci), (n, nw), ge=0, hint=hint)
        sig.append(s)
        cs.append(SigmaContribution.make('c%d_%s' % (ci, kind), s, kind=kind, order=ci))
    return cs, sig


def _spec_tau(n, nw, kinds, sig, rho, dl):
    tau = [[0.0 for _ in range(nw)] for _ in range(n)]
    for l in range(n):
        for w in range(nw):
            t = 0.0
            for ci, kind in enumerate(kinds):
                for k in range(n - l):
                    d = rho[k + l] * rho[k + l] if kind == 'cia' else rho[k + l]
                    t = t + sig[ci][k + l, w] * d * dl[l][k]
            tau[l][w] = t
    return tau


def _run(ctx, tm, wn, dl=None):
    """run the real path_integral, recording the raw optical depth handed to compute_absorption"""
    rec = {}
    real_ca = tm.compute_absorption

    def spy(tau, dz):
        rec['tau'] = tau.copy()
        return real_ca(tau, dz)
    tm.compute_absorption = spy
    if dl is not None:
        tm.compute_path_length_old = lambda dz: dl
    for c in tm.contribution_list:
        c.prepare(tm, wn)
    depth, trans = tm.path_integral(wn, False)
    return depth, trans, rec['tau']


@harness('C01', 'integral',
         quick=[dict(n=2, nw=1, kinds=['sigma']), dict(n=2, nw=2, kinds=['sigma', 'sigma']),
                dict(n=3, nw=1, kinds=['sigma', 'cia'], _shards=4), dict(n=2, nw=2, kinds=['cia', 'sigma', 'sigma'], _shards=4)],
         thorough=[dict(n=2, nw=2, kinds=['sigma', 'sigma']), dict(n=3, nw=2, kinds=['sigma', 'sigma'], _shards=8),
                   dict(n=3, nw=2, kinds=['sigma', 'cia', 'sigma'], _shards=16), dict(n=4, nw=1, kinds=['sigma', 'cia'], _shards=8),
                   dict(n=4, nw=2, kinds=['sigma', 'sigma'], _shards=16), dict(n=3, nw=1, kinds=['cia', 'sigma', 'sigma'], _shards=8)],
         covers=['unsaturated', 'saturated_skip'], functions=FUNCS, stubs=STUBS + ['chord lengths: fresh non-negative symbols of the shape the geometry harness proves'],
         shard_depth=4, max_paths=40000,
         outside=['layer/wavenumber/contribution counts beyond those listed', 'chord lengths of the new 3-D path method'])
def integral(ctx, n, nw, kinds):
    """Real path_integral + compute_absorption + Contribution.contribute/contribute_tau (+contribute_cia) on a
    directly constructed atmosphere with arbitrary non-negative chord lengths: tau[l,v] = sum_c sum_k
    sigma_c[k+l,v] rho[k+l]^p dl[l][k] exactly, or (licensed) the layer is saturated (>10 at every wavenumber)
    and later absorbers were skipped; depth = (Rp^2 + 2 sum_l (Rp+z_l)(1-e^-tau) dz_l)/Rs^2."""
    from taurex.model import TransmissionModel
    Rp, Rs, dz, z, rho = _atmosphere(ctx, n)
    wn = np.arange(1, nw + 1) * 100.0
    dl = [oarr([ctx.real('dl_%d_%d' % (l, k), ge=0) for k in range(n - l)], ctx.sym) for l in range(n)]
    cs, sig = _contribs(ctx, n, nw, kinds)
    tm = state_model(TransmissionModel, n, wn, Rp, Rs, z, dz, rho)
    for c in cs:
        tm.add_contribution(c)
    depth, trans, tau = _run(ctx, tm, wn, dl)
    spec = _spec_tau(n, nw, kinds, sig, rho, dl)
    ctx.goal('shapes', np.shape(depth) == (nw,) and np.shape(trans) == (n, nw) and np.shape(tau) == (n, nw))
    anysat = False
    for l in range(n):
        sat = ctx.and_([ctx.lt(10.0, tau[l, w]) for w in range(nw)])
        for w in range(nw):
            exact = ctx.eq(tau[l, w], spec[l][w])
            ctx.goal('tau[%d,%d]' % (l, w), ctx.or_(exact, ctx.and_(sat, ctx.le(tau[l, w], spec[l][w]))))
            ctx.goal('transmittance[%d,%d]' % (l, w), ctx.eq(trans[l, w], ctx.exp(-tau[l, w])))
        ctx.cover_if('unsaturated', ctx.not_(sat))
        ctx.cover_if('saturated_skip', ctx.and_(sat, ctx.lt(tau[l, 0], spec[l][0])))
    for w in range(nw):
        integ = sum(((Rp + z[l]) * (1.0 - trans[l, w]) * dz[l] * 2.0 for l in range(1, n)), (Rp + z[0]) * (1.0 - trans[0, w]) * dz[0] * 2.0)
        ctx.goal('depth[%d]' % w, ctx.eq(depth[w] * Rs * Rs, Rp * Rp + integ))


@harness('C01', 'consequences',
         quick=[dict(n=2, nw=1, kinds=['sigma']), dict(n=2, nw=1, kinds=['sigma', 'cia']), dict(n=3, nw=1, kinds=['sigma'])],
         thorough=[dict(n=2, nw=2, kinds=['sigma', 'sigma'], _shards=4), dict(n=3, nw=1, kinds=['sigma', 'cia'], _shards=8),
                   dict(n=3, nw=2, kinds=['sigma'], _shards=4), dict(n=4, nw=1, kinds=['sigma'], _shards=4)],
         functions=FUNCS, stubs=STUBS, shard_depth=4, max_paths=40000,
         outside=['counts beyond those listed'])
def consequences(ctx, n, nw, kinds):
    """Two real runs (cross-sections s and s' >= s, same atmosphere, real old path-length geometry abstracted to the
    same chord symbols) and one with all-zero cross-sections: depth >= (Rp/Rs)^2; depth <= (Rp/Rs)^2 + A with
    A = sum 2(Rp+z)dz/Rs^2; zero absorbers -> exactly (Rp/Rs)^2; scaling up never lowers the depth by more than
    exp(-10)*A (the saturation cut-off)."""
    from taurex.model import TransmissionModel
    Rp, Rs, dz, z, rho = _atmosphere(ctx, n)
    wn = np.arange(1, nw + 1) * 100.0
    dl = [oarr([ctx.real('dl_%d_%d' % (l, k), ge=0) for k in range(n - l)], ctx.sym) for l in range(n)]
    cs, sig = _contribs(ctx, n, nw, kinds, 's')
    cs2, sig2 = _contribs(ctx, n, nw, kinds, 'q')
    for a, b in zip(sig, sig2):
        for idx in np.ndindex(a.shape):
            ctx.assume(a[idx] <= b[idx])
    cs0, _ = _contribs(ctx, n, nw, kinds, 'o', zero=True)

    def run(clist):
        tm = state_model(TransmissionModel, n, wn, Rp, Rs, z, dz, rho)
        for c in clist:
            tm.add_contribution(c)
        return _run(ctx, tm, wn, dl)
    d1, t1, tau1 = run(cs)
    d2, t2, tau2 = run(cs2)
    d0, t0, tau0 = run(cs0)
    E10 = ctx.exp(-10.0)
    bare = Rp * Rp / (Rs * Rs)
    A = sum((2.0 * (Rp + z[l]) * dz[l] for l in range(1, n)), 2.0 * (Rp + z[0]) * dz[0]) / (Rs * Rs)
    for w in range(nw):
        ctx.goal('ge_bare[%d]' % w, ctx.le(bare, d1[w]))
        ctx.goal('le_opaque[%d]' % w, ctx.le(d1[w], bare + A))
        ctx.goal('transparent_is_bare[%d]' % w, ctx.eq(d0[w], bare))
        # scaling the cross-sections up never raises a layer's transmittance by more than exp(-10) (either tau grows, or the
        # scaled run was cut off above 10); the depth integral is linear in the transmittances with non-negative
        # coefficients 2(Rp+z)dz/Rs^2 summing to A, so depth' >= depth - exp(-10) A follows -- asserted directly for n <= 2
        for l in range(n):
            ctx.goal('monotone_layer[%d,%d]' % (l, w), ctx.le(t2[l, w], t1[l, w] + E10, scale=None if ctx.sym else 1.0))
        if n <= 2:
            ctx.goal('monotone[%d]' % w, ctx.le(d1[w] - E10 * A, d2[w], scale=None if ctx.sym else 1.0))


@harness('C01', 'geometry_old', quick=[dict(n=2), dict(n=3)], thorough=[dict(n=2), dict(n=3), dict(n=4), dict(n=5)],
         functions=FUNCS, stubs=STUBS,
         outside=['the size of the mid-shell approximation for unequal layers', 'the new 3-D path method (util/geometry.py)'])
def geometry_old(ctx, n):
    """Real compute_path_length_old on symbolic Rp>0, dz_l>0: N lists of N-l non-negative segments (first >0) that are
    the chord decomposition of one straight ray (Pythagoras on cumulative half-sums with one impact radius per
    tangent layer and strictly increasing shell radii), coinciding with the exact shell geometry when all layers
    are equally thick."""
    from taurex.model import TransmissionModel
    Rp = ctx.real('Rp', gt=0)
    dz = ctx.reals('dz', n, gt=0)
    equal = ctx.and_([ctx.eq(dz[i], dz[0]) for i in range(1, n)]) if n > 1 else True
    zs = [0.0]
    for l in range(n - 1):
        zs.append(zs[-1] + dz[l])
    z = oarr(zs, ctx.sym)
    tm = state_model(TransmissionModel, n, np.array([100.0]), Rp, Rp, z, dz, None)
    pl = tm.compute_path_length_old(dz)
    ctx.goal('count', len(pl) == n and all(len(pl[l]) == n - l for l in range(n)))
    if not (len(pl) == n and all(len(pl[l]) == n - l for l in range(n))):
        return
    for l in range(n):
        b = Rp + z[l] + dz[0] / 2                     # TauREx-2 mid-shell convention (taken as given)
        C = 0.0
        prev_r = b
        for j in range(n - l):
            seg = pl[l][j]
            ctx.goal('seg_nonneg[%d,%d]' % (l, j), ctx.lt(0.0, seg) if j == 0 else ctx.le(0.0, seg))
            C = C + seg
            r = Rp + z[l + j] + dz[l + j] / 2 + dz[0] / 2
            ctx.goal('radii_increase[%d,%d]' % (l, j), ctx.lt(prev_r, r))
            ctx.goal('pythagoras[%d,%d]' % (l, j), ctx.eq((C / 2) * (C / 2) + b * b, r * r, scale=None if ctx.sym else 1.0))
            # exact shell geometry when the layers are equally thick
            be = Rp + z[l] + dz[l] / 2
            re = Rp + z[l + j] + dz[l + j]
            ctx.goal('exact_when_equal[%d,%d]' % (l, j), ctx.implies(equal, ctx.eq((C / 2) * (C / 2) + be * be, re * re, scale=None if ctx.sym else 1.0)))
            prev_r = r
