"""C08 -- prior transforms are monotone inverse-CDF maps in the declared space."""
import ast
import math

import numpy as np

from symx.harness import harness
from .common import patched
from . import stubs

FUNCS = ['taurex.core.priors:Prior.prior', 'taurex.core.priors:Uniform.__init__', 'taurex.core.priors:Uniform.set_bounds',
         'taurex.core.priors:Uniform.sample', 'taurex.core.priors:Uniform.boundaries', 'taurex.core.priors:LogUniform.__init__',
         'taurex.core.priors:Gaussian.__init__', 'taurex.core.priors:Gaussian.sample', 'taurex.core.priors:Gaussian.boundaries',
         'taurex.core.priors:LogGaussian.__init__', 'taurex.util.fitting:parse_priors', 'taurex.parameter.factory:create_prior',
         'taurex.optimizer.optimizer:compile_params']
STUBS = ['scipy.stats.uniform.ppf(q,loc,scale) -> loc+scale*q', 'scipy.stats.norm.ppf(q,loc,scale) -> loc+scale*Phi^-1(q), '
         'Phi^-1 UF strictly increasing, odd about 1/2, zero at 1/2', 'log10/exp10 UF: monotone, inverse pair',
         'ast.literal_eval additionally resolves identifier tokens to symbolic numbers (text clause)']


def _env(ctx):
    import taurex.core.priors as pm
    if ctx.sym:
        return patched(pm, stats=stubs.stats_stub)
    return patched(pm)


def _num(ctx, v):
    """a number as it would appear in input text"""
    return repr(float(v))


def _mk(ctx, kind, a, b, text, case=0):
    """construct a prior directly or from its documented text form"""
    from taurex.core.priors import Uniform, LogUniform, Gaussian, LogGaussian
    from taurex.parameter import factory
    import taurex.util.fitting as fitting
    direct = {
        'Uniform': lambda: Uniform(bounds=[a, b]),
        'LogUniform': lambda: LogUniform(bounds=[a, b]),
        'LogUniformLin': lambda: LogUniform(lin_bounds=[a, b]),
        'Gaussian': lambda: Gaussian(mean=a, std=b),
        'LogGaussian': lambda: LogGaussian(mean=a, std=b),
        'LogGaussianLin': lambda: LogGaussian(lin_mean=a, lin_std=b),
    }
    if not text:
        return direct[kind]()
    tmpl = {
        'Uniform': 'Uniform(bounds=[{a},{b}])', 'LogUniform': 'LogUniform(bounds=[{a},{b}])',
        'LogUniformLin': 'LogUniform(lin_bounds=[{a},{b}])', 'Gaussian': 'Gaussian(mean={a},std={b})',
        'LogGaussian': 'LogGaussian(mean={a},std={b})', 'LogGaussianLin': 'LogGaussian(lin_mean={a},lin_std={b})'}[kind]
    cname = tmpl.split('(')[0]
    cname2 = [cname, cname.lower(), cname.upper()][case]
    tmpl = cname2 + tmpl[len(cname):]
    if ctx.sym:
        s = tmpl.format(a='tok_a', b='tok_b')
        with patched(ast, literal_eval=stubs.make_literal_eval(dict(tok_a=a, tok_b=b))):
            return factory.create_prior(s)
    s = tmpl.format(a=_num(ctx, a), b=_num(ctx, b))
    return factory.create_prior(s)


@harness('C08', 'uniform',
         quick=[dict(kind='Uniform', text=False), dict(kind='LogUniform', text=False), dict(kind='LogUniformLin', text=False),
                dict(kind='Uniform', text=True), dict(kind='LogUniformLin', text=True, case=1), dict(kind='LogUniform', text=True, case=2)],
         thorough=[dict(kind=k, text=t, case=c) for k in ('Uniform', 'LogUniform', 'LogUniformLin')
                   for t, c in ((False, 0), (True, 0), (True, 1), (True, 2))],
         covers=['a<b', 'a>b'], functions=FUNCS, stubs=STUBS,
         outside=['equal bounds (scipy returns nan for scale 0)', 'malformed prior strings'])
def uniform(ctx, kind, text, case=0):
    """Real Uniform/LogUniform (direct or via real parse_priors+create_prior on the documented text) with
    symbolic bounds in any order: sample(u) = min + |b-a| u on [0,1], monotone, ends = bounds,
    boundaries()=(min,max); log variants work on log10 and prior(x)=10**x; lin_bounds == log10 of them."""
    from taurex.core.priors import PriorMode
    lin = kind.endswith('Lin')
    a = ctx.real('a', gt=0 if lin else None)
    b = ctx.real('b', gt=0 if lin else None)
    ctx.assume(ctx.ne(a, b))
    u = ctx.real('u', ge=0, le=1)
    v = ctx.real('v', ge=0, le=1)
    ctx.assume(u <= v)
    ctx.cover_if('a<b', ctx.lt(a, b))
    ctx.cover_if('a>b', ctx.lt(b, a))
    with _env(ctx):
        p = _mk(ctx, kind, a, b, text, case)
        su, sv, s0, s1 = p.sample(u), p.sample(v), p.sample(0.0), p.sample(1.0)
        lo, hi = p.boundaries()
        pu, pv = p.prior(su), p.prior(sv)
    A, B = (ctx.log10(a), ctx.log10(b)) if lin else (a, b)
    mn = ctx.ite(ctx.le_strict(A, B), A, B)
    mx = ctx.ite(ctx.le_strict(A, B), B, A)
    ctx.goal('inverse_cdf', ctx.eq(su, mn + (mx - mn) * u))
    ctx.goal('monotone', ctx.le(su, sv))
    ctx.goal('ends', ctx.and_(ctx.eq(s0, mn), ctx.eq(s1, mx)))
    ctx.goal('boundaries', ctx.and_(ctx.eq(lo, mn), ctx.eq(hi, mx)))
    ctx.goal('in_support', ctx.and_(ctx.le(mn, su), ctx.le(su, mx)))
    if kind == 'Uniform':
        ctx.goal('mode', p.priorMode is PriorMode.LINEAR)
        ctx.goal('prior_identity', ctx.eq(pu, su))
    else:
        ctx.goal('mode', p.priorMode is PriorMode.LOG)
        ctx.goal('prior_pow10', ctx.eq(pu, ctx.exp10(su)))
        ctx.goal('prior_monotone', ctx.le(pu, pv))
        if lin:
            # sample(0/1) mapped back to linear space are the linear bounds
            m0, m1 = p.prior(s0), p.prior(s1)
            mnl = ctx.ite(ctx.le_strict(a, b), a, b)
            mxl = ctx.ite(ctx.le_strict(a, b), b, a)
            ctx.goal('lin_bounds_roundtrip', ctx.and_(ctx.eq(m0, mnl), ctx.eq(m1, mxl)))


@harness('C08', 'gaussian',
         quick=[dict(kind='Gaussian', text=False), dict(kind='LogGaussian', text=False), dict(kind='LogGaussianLin', text=False),
                dict(kind='Gaussian', text=True, case=1), dict(kind='LogGaussianLin', text=True)],
         thorough=[dict(kind=k, text=t, case=c) for k in ('Gaussian', 'LogGaussian', 'LogGaussianLin')
                   for t, c in ((False, 0), (True, 0), (True, 1), (True, 2))],
         functions=FUNCS, stubs=STUBS, outside=['u = 0 or 1 (infinite quantiles)', 'std <= 0'])
def gaussian(ctx, kind, text, case=0):
    """Real Gaussian/LogGaussian: sample(u) = mean + std*Phi^-1(u), strictly monotone for std>0, median =
    mean, symmetric about the mean, boundaries()=(sample(.1),sample(.9)); lin_mean/lin_std == log10 of them."""
    from taurex.core.priors import PriorMode
    lin = kind.endswith('Lin')
    m = ctx.real('m', gt=0 if lin else None)
    s = ctx.real('s', gt=1 if lin else 0)      # lin_std > 1 so that log10(lin_std) > 0
    u = ctx.real('u', gt=0, lt=1)
    v = ctx.real('v', gt=0, lt=1)
    ctx.assume(u < v)
    with _env(ctx):
        p = _mk(ctx, kind, m, s, text, case)
        su, sv, smid, sm = p.sample(u), p.sample(v), p.sample(0.5), p.sample(1 - u)
        lo, hi = p.boundaries()
        s10, s90 = p.sample(0.1), p.sample(0.9)
        pu, pv = p.prior(su), p.prior(sv)
    M, S = (ctx.log10(m), ctx.log10(s)) if lin else (m, s)
    if ctx.sym:
        from symx.core import uf_apply
        z = uf_apply('ppf', u)
        ctx.goal('inverse_cdf', ctx.eq(su, M + S * z))
    else:
        import scipy.stats
        ctx.goal('inverse_cdf', ctx.eq(su, M + S * scipy.stats.norm.ppf(u), scale=1.0))
    ctx.goal('strictly_monotone', ctx.lt(su, sv))
    ctx.goal('median_is_mean', ctx.eq(smid, M))
    ctx.goal('symmetric', ctx.eq(su - M, M - sm, scale=None if ctx.sym else abs(M) + abs(S)))
    ctx.goal('boundaries', ctx.and_(ctx.eq(lo, s10), ctx.eq(hi, s90), ctx.lt(lo, hi)))
    if kind == 'Gaussian':
        ctx.goal('mode', p.priorMode is PriorMode.LINEAR)
        ctx.goal('prior_identity', ctx.eq(pu, su))
    else:
        ctx.goal('mode', p.priorMode is PriorMode.LOG)
        ctx.goal('prior_pow10', ctx.eq(pu, ctx.exp10(su)))
        ctx.goal('prior_strictly_monotone', ctx.lt(pu, pv))


@harness('C08', 'default_priors', quick=[dict(mode='linear'), dict(mode='log')], functions=FUNCS, stubs=STUBS)
def default_priors(ctx, mode):
    """Real module-level compile_params on a parameter tuple with symbolic bounds: the default prior is
    Uniform(bounds) for linear mode and LogUniform(lin_bounds=bounds) for log mode (behaviourally: same
    sample/prior/boundaries terms, same space), created only for parameters marked to fit."""
    from taurex.optimizer.optimizer import compile_params
    from taurex.core.priors import Uniform, LogUniform, PriorMode
    a = ctx.real('a', gt=0)
    b = ctx.real('b', gt=0)
    ctx.assume(ctx.ne(a, b))
    u = ctx.real('u', ge=0, le=1)
    fitparams = {'p': ('p', 'p', lambda: 1.0, lambda x: None, mode, True, [a, b]),
                 'q': ('q', 'q', lambda: 1.0, lambda x: None, mode, False, [b, a])}
    with _env(ctx):
        fp, pri, allp, der = compile_params(fitparams, {})
        ctx.goal('only_fitted', len(fp) == 1 and len(pri) == 1 and fp[0][0] == 'p' and list(allp) == ['p'])
        p = pri[0]
        ref = LogUniform(lin_bounds=[a, b]) if mode == 'log' else Uniform(bounds=[a, b])
        ctx.goal('class', type(p) is type(ref))
        ctx.goal('mode', p.priorMode is (PriorMode.LOG if mode == 'log' else PriorMode.LINEAR))
        ctx.goal('sample', ctx.eq(p.sample(u), ref.sample(u)))
        ctx.goal('prior', ctx.eq(p.prior(p.sample(u)), ref.prior(ref.sample(u))))
        A, B = (ctx.log10(a), ctx.log10(b)) if mode == 'log' else (a, b)
        mn = ctx.ite(ctx.le_strict(A, B), A, B)
        mx = ctx.ite(ctx.le_strict(A, B), B, A)
        lo, hi = p.boundaries()
        ctx.goal('boundaries', ctx.and_(ctx.eq(lo, mn), ctx.eq(hi, mx)))
        ctx.goal('sample_formula', ctx.eq(p.sample(u), mn + (mx - mn) * u))
