"""C11 -- vertical structure is hydrostatic, ordered and one value per layer."""
import numpy as np

from symx.harness import harness
from .common import patched
from .c10 import _chem_env

FUNCS = ['taurex.data.profiles.pressure.pressureprofile:SimplePressureProfile.compute_pressure_profile',
         'taurex.data.profiles.pressure.arraypressure:ArrayPressureProfile.compute_pressure_profile',
         'taurex.data.planet:Planet.calculate_scale_properties', 'taurex.data.planet:Planet.gravity_at_height',
         'taurex.data.planet:Planet.gravity',
         'taurex.model.simplemodel:SimpleForwardModel._compute_altitude_gravity_scaleheight_profile',
         'taurex.model.simplemodel:SimpleForwardModel.densityProfile',
         'taurex.model.simplemodel:SimpleForwardModel.initialize_profiles',
         'taurex.model.simplemodel:SimpleForwardModel.generate_profiles', 'taurex.util.output:generate_profile_dict']
STUBS = ['np.logspace(a,b,n) with symbolic ends -> 10**(a+k(b-a)/(n-1)) (exp10 UF)', 'np.gradient -> finite differences',
         'log10/exp10/ln/sqrt UF with monotonicity, inverse-pair, sqrt(x)^2=x instances',
         'physical constants G, KBOLTZ -> symbolic positive constants']


@harness('C11', 'pressure_grid', quick=[dict(n=1), dict(n=2), dict(n=3)], thorough=[dict(n=k) for k in (1, 2, 3, 4, 5, 8)],
         functions=FUNCS, stubs=STUBS, outside=['FilePressureProfile (text I/O)'])
def pressure_grid(ctx, n):
    """Real SimplePressureProfile with symbolic 0<Pmin<Pmax: N+1 levels strictly decreasing from Pmax to Pmin,
    N layer pressures, each the geometric mean of its two levels (P_l^2 = P_i P_i+1, P_l>0)."""
    from taurex.data.profiles.pressure import SimplePressureProfile
    pmin = ctx.real('pmin', gt=0)
    pmax = ctx.real('pmax', gt=0)
    ctx.assume(pmin < pmax)
    pp = SimplePressureProfile(n, pmin, pmax)
    pp.compute_pressure_profile()
    lev = pp.pressure_profile_levels
    lay = pp.profile
    ctx.goal('counts', len(lev) == n + 1 and len(lay) == n and pp.nLayers == n)
    if ctx.sym:
        ctx.exp10(ctx.log10(pmin))
        ctx.exp10(ctx.log10(pmax))
    ctx.goal('ends', ctx.and_(ctx.eq(lev[0], pmax), ctx.eq(lev[-1], pmin)))
    for i in range(n):
        ctx.goal('decreasing[%d]' % i, ctx.lt(lev[i + 1], lev[i]))
        ctx.goal('geomean[%d]' % i, ctx.and_(ctx.lt(0.0, lay[i]), ctx.eq(lay[i] * lay[i], lev[i] * lev[i + 1])))
        ctx.goal('bracket[%d]' % i, ctx.and_(ctx.lt(lev[i + 1], lay[i]), ctx.lt(lay[i], lev[i])))


@harness('C11', 'array_pressure', quick=[dict(n=2), dict(n=3), dict(n=3, uniform=True), dict(n=3, reverse=True), dict(n=3, uniform=True, reverse=True)],
         thorough=[dict(n=k, uniform=u, reverse=r) for k in (2, 3, 4, 5) for u in (False, True) for r in (False, True)],
         functions=FUNCS, stubs=STUBS,
         outside=['monotonicity of the derived levels for strongly non-uniform arrays (log-spacing ratio > 3): the property is conditional on decreasing levels'])
def array_pressure(ctx, n, uniform=False, reverse=False):
    """Real ArrayPressureProfile on symbolic decreasing layer pressures: N layers kept as given, N+1 positive
    levels, outermost levels outside the given range; for arrays uniform in log P the levels decrease strictly and
    bracket every layer."""
    from taurex.data.profiles.pressure.arraypressure import ArrayPressureProfile
    if uniform:
        lp0 = ctx.real('lp0')
        d = ctx.real('d', gt=0)
        P = np.array([ctx.exp10(lp0 - i * d) for i in range(n)], dtype=object if ctx.sym else float)
    else:
        P = ctx.reals('P', n, gt=0)
        for i in range(n - 1):
            ctx.assume(P[i] > P[i + 1])
    # reverse=True: the table is listed top of the atmosphere first and the class flips it
    pp = ArrayPressureProfile(P[::-1].copy(), reverse=True) if reverse else ArrayPressureProfile(P.copy())
    pp.compute_pressure_profile()
    lev = pp.pressure_profile_levels
    ctx.goal('counts', len(lev) == n + 1 and len(pp.profile) == n and pp.nLayers == n)
    if ctx.sym:
        for i in range(n):
            ctx.exp10(ctx.log10(P[i]))
    for i in range(n):
        ctx.goal('layers_kept[%d]' % i, ctx.eq(pp.profile[i], P[i]))
    for i in range(n + 1):
        ctx.goal('level_positive[%d]' % i, ctx.lt(0.0, lev[i]))
    ctx.goal('outer_levels', ctx.and_(ctx.lt(P[0], lev[0]), ctx.lt(lev[n], P[n - 1])))
    if uniform:
        for i in range(n):
            ctx.goal('bracket[%d]' % i, ctx.and_(ctx.lt(lev[i + 1], P[i]), ctx.lt(P[i], lev[i])))
            ctx.goal('decreasing[%d]' % i, ctx.lt(lev[i + 1], lev[i]))


@harness('C11', 'hydrostatic', quick=[dict(n=1), dict(n=2), dict(n=3), dict(n=2, int_T=True)],
         thorough=[dict(n=k) for k in (1, 2, 3, 4, 5)] + [dict(n=3, int_T=True)],
         functions=FUNCS, stubs=STUBS, outside=['layer counts beyond those listed'])
def hydrostatic(ctx, n, int_T=False):
    """Real Planet.calculate_scale_properties/gravity/gravity_at_height with symbolic M,R>0, T_l>0, mu_l>0 and
    strictly decreasing positive levels: z_0=0, dz_i = H_i ln(P_i/P_i+1) > 0, z_i+1 = z_i+dz_i,
    H_i = kT_i/(mu_i g_i), g_i = GM/(R+z_i)^2, array lengths (N+1, N, N, N)."""
    import taurex.constants as tc
    import taurex.data.planet as pl
    M = ctx.real('M', gt=0, hint=(1e26, 3e27))
    R = ctx.real('R', gt=0, hint=(3e7, 1e8))
    # int_T: a temperature profile typed as whole numbers (integer dtype), everything else symbolic
    T = np.array([1400, 1350, 1300][:n]) if int_T else ctx.reals('T', n, gt=0, hint=(300, 3000))
    mu = ctx.reals('mu', n, gt=0, hint=(1e-27, 1e-26))
    Pl = ctx.reals('Pl', n + 1, gt=0, hint=(1, 1e6))
    for i in range(n):
        ctx.assume(Pl[i] > Pl[i + 1])
    G = tc.G if int_T else ctx.const('G', tc.G)
    KB = tc.KBOLTZ if int_T else ctx.const('KBOLTZ', tc.KBOLTZ)
    with patched(tc, KBOLTZ=KB), patched(pl, G=G):
        planet = pl.Planet()
        planet._mass = M
        planet._radius = R
        z, H, g, dz = planet.calculate_scale_properties(T, Pl, mu)
    ctx.goal('lengths', len(z) == n + 1 and len(H) == n and len(g) == n and len(dz) == n)
    ctx.goal('z0', ctx.eq(z[0], 0.0))
    _hydro_goals(ctx, n, z, H, g, dz, T, mu, Pl, M, R, G, KB)


def _hydro_goals(ctx, n, z, H, g, dz, T, mu, Pl, M, R, G, KB):
    # discharge with altitude cut points: facts already proved about z_i (z_i >= 0) are re-used as lemmas
    for i in range(n):
        zi = z[i]
        ctx.goal('g[%d]' % i, ctx.eq(g[i] * (R + zi) * (R + zi), G * M))
        ctx.goal('H[%d]' % i, ctx.eq(H[i] * mu[i] * g[i], KB * T[i]))
        ctx.goal('dz[%d]' % i, ctx.eq(dz[i], H[i] * ctx.log(Pl[i] / Pl[i + 1])))
        ctx.goal('dz_positive[%d]' % i, ctx.lt(0.0, dz[i]))
        ctx.goal('z_step[%d]' % i, ctx.eq(z[i + 1], zi + dz[i]))
        ctx.goal('z_increasing[%d]' % i, ctx.lt(zi, z[i + 1]))


@harness('C11', 'model_profiles', quick=[dict(n=1), dict(n=2), dict(n=3)], thorough=[dict(n=k) for k in (1, 2, 3, 4, 5)],
         functions=FUNCS, stubs=STUBS + ['OpacityCache -> fixed molecule list'],
         outside=['FilePressureProfile', 'condensates'])
def model_profiles(ctx, n):
    """Real TransmissionModel.initialize_profiles()/generate_profiles() on real Planet, SimplePressureProfile,
    TaurexChemistry and a per-layer symbolic temperature profile: every stored per-layer array (pressure,
    temperature, density, altitude, gravity, scale height, mixing ratios, mu) has exactly N entries aligned
    with the pressure profile; density = P/(kT); altitude/gravity/scale-height entries are the hydrostatic ones."""
    import taurex.constants as tc
    import taurex.data.planet as pl
    from taurex.model import TransmissionModel
    from taurex.data.profiles.pressure import SimplePressureProfile
    from taurex.data.profiles.temperature.temparray import TemperatureArray
    from taurex.data.profiles.chemistry import TaurexChemistry, ConstantGas
    M = ctx.real('M', gt=0)
    R = ctx.real('R', gt=0)
    T = ctx.reals('T', n, gt=0)
    x = ctx.real('h2o', ge=0, le=1)
    pmin = ctx.real('pmin', gt=0)
    pmax = ctx.real('pmax', gt=0)
    ctx.assume(pmin < pmax)
    G = ctx.const('G', tc.G)
    KB = ctx.const('KBOLTZ', tc.KBOLTZ)
    with patched(tc, KBOLTZ=KB), patched(pl, G=G), _chem_env(['H2O']):
        planet = pl.Planet()
        planet._mass = M
        planet._radius = R
        chem = TaurexChemistry(fill_gases=['H2', 'He'], ratio=0.17)
        chem.addGas(ConstantGas('H2O', mix_ratio=x))
        tp = TemperatureArray(tp_array=list(T) if n > 1 else [T[0], T[0]])
        if n > 1:
            # one control value per layer: the array profile is then the array itself (any order flag)
            tp._p_profile = None
        pp = SimplePressureProfile(n, pmin, pmax)
        tm = TransmissionModel(planet=planet, pressure_profile=pp, temperature_profile=tp, chemistry=chem)
        tm._compute_inital_mu()
        tm.initialize_profiles()
        prof = tm.generate_profiles()
        dens = tm.densityProfile
        Pl = pp.pressure_profile_levels
        P = tm.pressureProfile
        Tm = tm.temperatureProfile
        mu = chem.muProfile
    names = ['temp_profile', 'density_profile', 'scaleheight_profile', 'altitude_profile', 'gravity_profile',
             'pressure_profile', 'mu_profile']
    for k in names:
        ctx.goal('len[%s]' % k, prof.get(k) is not None and len(prof[k]) == n)
    ctx.goal('len[mix]', np.shape(prof['active_mix_profile'])[-1] == n and np.shape(prof['inactive_mix_profile'])[-1] == n)
    ctx.goal('len[deltaz]', len(tm.deltaz) == n and len(tm.altitude_boundaries) == n + 1)
    if any(len(prof[k]) != n for k in names):
        return
    for l in range(n):
        ctx.goal('density[%d]' % l, ctx.eq(dens[l] * KB * Tm[l], P[l]))
        ctx.goal('T_aligned[%d]' % l, ctx.eq(prof['temp_profile'][l], T[l]))
        ctx.goal('P_aligned[%d]' % l, ctx.eq(prof['pressure_profile'][l], P[l]))
        zi = prof['altitude_profile'][l]
        ctx.goal('gravity[%d]' % l, ctx.eq(prof['gravity_profile'][l] * (R + zi) * (R + zi), G * M))
        ctx.goal('scaleheight[%d]' % l, ctx.eq(prof['scaleheight_profile'][l] * mu[l] * prof['gravity_profile'][l], KB * T[l]))
        ctx.goal('dz[%d]' % l, ctx.eq(tm.deltaz[l], prof['scaleheight_profile'][l] * ctx.log(Pl[l] / Pl[l + 1])))
        ctx.goal('alt_is_boundary[%d]' % l, ctx.eq(zi, tm.altitude_boundaries[l]))
    ctx.goal('z0', ctx.eq(prof['altitude_profile'][0], 0.0))
