"""C16 (partial) -- the stored spectra describe themselves consistently."""
import numpy as np

from symx.harness import harness

FUNCS = ['taurex.binning.binner:Binner.generate_spectrum_output', 'taurex.binning.fluxbinner:FluxBinner.generate_spectrum_output',
         'taurex.binning.simplebinner:SimpleBinner.generate_spectrum_output', 'taurex.binning.nativebinner:NativeBinner.generate_spectrum_output',
         'taurex.util.util:wnwidth_to_wlwidth', 'taurex.util.util:compute_bin_edges', 'taurex.binning.fluxbinner:FluxBinner.bindown']


@harness('C16', 'spectrum_output',
         quick=[dict(binner='flux', nn=3, nb=1, size=s) for s in ('lighter', 'light', 'heavy')] + [dict(binner='native', nn=3, nb=0, size='heavy'),
                                                                                                     dict(binner='simple', nn=3, nb=2, size='light')],
         thorough=[dict(binner='flux', nn=3, nb=2, size=s, _shards=8) for s in ('lighter', 'heavy')] + [dict(binner='flux', nn=4, nb=1, size='heavy', _shards=8), dict(binner='simple', nn=4, nb=2, size='heavy', _shards=4)],
         functions=FUNCS, shard_depth=4, stubs=['np.histogram/np.digitize contract models (SimpleBinner)'],
         outside=['HDF5 write/read round trip and model reload (byte-level I/O: not reachable by a solver)'])
def spectrum_output(ctx, binner, nn, nb, size):
    """Real generate_spectrum_output of each binner on a symbolic model output: wavelength grids are 10000/wavenumber,
    binned wavelength widths are the wavenumber widths of the same bins converted at the bin centre (10000 w / v^2),
    the binned spectrum is the binner applied to the stored native spectrum, native widths come from the mid-point
    edges, and optical depths are present according to the requested output size."""
    from taurex import OutputSize
    from taurex.binning import FluxBinner, SimpleBinner, NativeBinner
    native = ctx.increasing('nat', nn, gt=0)
    flux = ctx.reals('flux', nn)
    tau = ctx.array('tau', (2, nn), ge=0)
    if binner == 'flux':
        bc = ctx.increasing('bin', nb, gt=0)
        bw = ctx.reals('binw', nb, gt=0)
        b = FluxBinner(bc.copy(), bw.copy())
    elif binner == 'simple':
        bc = ctx.increasing('bin', nb, gt=0)
        bw = None
        # every native point strictly inside some bin: the histogram binner is exact there (C05)
        b = SimpleBinner(bc.copy())
    else:
        bc, bw = native, None
        b = NativeBinner()
    osz = {'lighter': OutputSize.lighter, 'light': OutputSize.light, 'heavy': OutputSize.heavy}[size]
    try:
        out = b.generate_spectrum_output((native.copy(), flux.copy(), tau.copy(), None), output_size=osz)
    except ZeroDivisionError:
        return      # an empty histogram bin (0/0): outside the clause
    ctx.goal('native_wngrid', all(out['native_wngrid'][i] is native[i] or bool(ctx.eq(out['native_wngrid'][i], native[i])) for i in range(nn)) if not ctx.sym
             else ctx.and_([ctx.eq(out['native_wngrid'][i], native[i]) for i in range(nn)]))
    for i in range(nn):
        ctx.goal('native_wlgrid[%d]' % i, ctx.eq(out['native_wlgrid'][i] * native[i], 10000.0))
        ctx.goal('native_spectrum[%d]' % i, ctx.eq(out['native_spectrum'][i], flux[i]))
    if binner == 'native':
        # the native binner stores the native spectrum only (no binned copy); optical depth only for heavy output
        ctx.goal('native_keys', set(out) == ({'native_wngrid', 'native_wlgrid', 'native_spectrum'} |
                                             ({'native_tau'} if osz > OutputSize.light else set())))
        return
    edges = [native[0] - (native[1] - native[0]) / 2] + [(native[i] + native[i + 1]) / 2 for i in range(nn - 1)] + \
            [native[-1] + (native[-1] - native[-2]) / 2]
    for i in range(nn):
        ctx.goal('native_wnwidth[%d]' % i, ctx.eq(out['native_wnwidth'][i], edges[i + 1] - edges[i]))
    ref = b.bindown(native.copy(), flux.copy())[1]
    ctx.goal('binned_len', len(out['binned_spectrum']) == len(ref))
    for j in range(len(ref)):
        a, c = out['binned_spectrum'][j], ref[j]
        nan_both = isinstance(a, float) and a != a and isinstance(c, float) and c != c
        ctx.goal('binned_spectrum[%d]' % j, True if nan_both else ctx.eq(a, c))
    if binner != 'native':
        for j in range(nb):
            ctx.goal('binned_wngrid[%d]' % j, ctx.eq(out['binned_wngrid'][j], bc[j]))
            ctx.goal('binned_wlgrid[%d]' % j, ctx.eq(out['binned_wlgrid'][j] * bc[j], 10000.0))
            w = out['binned_wnwidth'][j]
            if bw is not None:
                ctx.goal('binned_wnwidth[%d]' % j, ctx.eq(w, bw[j]))
            ctx.goal('binned_wlwidth[%d]' % j, ctx.eq(out['binned_wlwidth'][j] * bc[j] * bc[j], 10000.0 * w))
    ctx.goal('tau_presence', ('binned_tau' in out) == (osz > OutputSize.lighter) and ('native_tau' in out) == (osz > OutputSize.light))
