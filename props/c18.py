"""C18 -- parallel post-processing is invariant to how samples are split across ranks."""
import math

import numpy as np

from symx.harness import harness
from .mpi_double import run_ranks

FUNCS = ['taurex.util.math:OnlineVariance.update', 'taurex.util.math:OnlineVariance.variance',
         'taurex.util.math:OnlineVariance.combine_variance', 'taurex.util.math:OnlineVariance.parallelVariance',
         'taurex.mpi:allgather', 'taurex.mpi:allreduce', 'taurex.mpi:get_rank', 'taurex.mpi:nprocs']


def _isnan(v):
    return isinstance(v, (float, np.floating)) and v != v


@harness('C18', 'online_variance',
         quick=[dict(n=2, size=2, dim=0), dict(n=3, size=2, dim=0), dict(n=3, size=2, dim=2),
                dict(n=3, size=3, dim=0, _shards=3), dict(n=1, size=2, dim=0)],
         thorough=[dict(n=2, size=2, dim=0), dict(n=3, size=2, dim=2), dict(n=4, size=2, dim=0, _shards=4),
                   dict(n=3, size=3, dim=2, _shards=3), dict(n=4, size=2, dim=2, _shards=4), dict(n=1, size=3, dim=0)],
         covers=['empty_rank', 'single_sample_rank', 'all_on_one_rank', 'spread'],
         functions=FUNCS, shard_depth=3,
         stubs=['mpi4py -> sequential communicator double; every exchanged value re-created '
                '(pickle round trip for concrete leaves, fresh wrapper for symbolic ones)'],
         outside=['real MPI transport', 'more ranks / samples than listed', 'Bcast buffer path'])
def online_variance(ctx, n, size, dim):
    """Real OnlineVariance.update on each rank's share + parallelVariance (through taurex.mpi and the
    communicator double) for EVERY assignment of n weighted samples to `size` ranks (assignment = symbolic
    selectors): result on every rank == two-pass weighted variance of all samples; <2 samples -> NaN."""
    from taurex.util.math import OnlineVariance
    w = ctx.reals('w', n, gt=0)
    if dim:
        x = ctx.array('x', (n, dim))
    else:
        x = ctx.reals('x', n)
    assign = [ctx.choice('rank_of_%d' % i, size) for i in range(n)]
    counts = [assign.count(r) for r in range(size)]
    if 0 in counts:
        ctx.cover('empty_rank')
    if 1 in counts:
        ctx.cover('single_sample_rank')
    if max(counts) == n:
        ctx.cover('all_on_one_rank')
    if min(counts) >= 1:
        ctx.cover('spread')
    ctx.note('assignment', assign)

    def rank_fn(r):
        ov = OnlineVariance()
        for i in range(n):
            if assign[i] == r:
                ov.update(x[i] if not dim else x[i].copy(), weight=w[i])
        return ov.parallelVariance()

    try:
        results = run_ranks(size, rank_fn)
    except Exception as ex:
        ctx.goal('no_exception:%s' % type(ex).__name__, False)
        return
    # two-pass weighted variance, written independently
    W = sum(w[1:], w[0])
    dims = range(dim) if dim else [None]
    for r in range(size):
        res = results[r]
        if n < 2:
            ctx.goal('nan_when_lt2[%d]' % r, _isnan(res))
            continue
        for d in dims:
            xs = [x[i] if d is None else x[i, d] for i in range(n)]
            m = sum((w[i] * xs[i] for i in range(1, n)), w[0] * xs[0]) / W
            var = sum((w[i] * (xs[i] - m) * (xs[i] - m) for i in range(1, n)),
                      w[0] * (xs[0] - m) * (xs[0] - m)) / W
            got = res if d is None else (res[d] if hasattr(res, '__len__') else res)
            if _isnan(got):
                ctx.goal('variance[%d,%s]' % (r, d), False)
            else:
                ctx.goal('variance[%d,%s]' % (r, d), ctx.eq(got, var, scale=None if ctx.sym else 1e-6))


@harness('C18', 'derived_trace',
         quick=[dict(n=3, size=2, ties=False, _shards=4), dict(n=2, size=2, ties=True), dict(n=3, size=2, ties=True, _shards=8), dict(n=2, size=3, ties=False)],
         thorough=[dict(n=3, size=3, ties=False, _shards=8), dict(n=3, size=2, ties=True, _shards=8)],
         functions=FUNCS + ['taurex.optimizer.optimizer:Optimizer.compute_derived_trace', 'taurex.util.util:quantile_corner'],
         stubs=['mpi4py -> sequential serialising communicator double', 'nestle result -> symbolic samples/weights',
                'np.interp -> numpy-exact contract model'], shard_depth=4, max_paths=80000,
         outside=['real MPI transport', 'more ranks / samples than listed'])
def derived_trace(ctx, n, size, ties):
    """Real Optimizer.compute_derived_trace on `size` emulated ranks (samples strided over ranks, traces/weights
    exchanged through the serialising double): on every rank the trace has one entry per sample IN SAMPLE ORDER
    (trace[i] is the derived value of samples[i]) and the summaries equal the single-process ones -- for distinct
    weights and (ties=True) for weights that may coincide."""
    import taurex.core.priors as pm
    import taurex.optimizer.nestle as nm
    from taurex.util.util import quantile_corner
    from . import stubs
    from .optdoubles import NestleResult, nestle_double
    from .c09 import _optimizer
    from .common import patched
    S = ctx.array('sample', (n, 1), gt=0, hint=(0.5, 3))
    w = ctx.reals('weight', n, gt=0, hint=(0.1, 1))
    if not ties:
        for i in range(n):
            for j in range(i + 1, n):
                ctx.assume(ctx.ne(w[i], w[j]))
    env = [patched(pm, stats=stubs.stats_stub)] if ctx.sym else []
    for e in env:
        e.__enter__()
    try:
        def rank_fn(r):
            model, obs, opt = _optimizer(ctx, n, 1, ('a',))
            opt.enable_derived('psum')
            opt.compile_params()
            res = NestleResult(S, w)
            with patched(nm, nestle=nestle_double(res)):
                opt._nestle_output = opt.store_nestle_output(res)
            return opt.compute_derived_trace(0)
        try:
            results = run_ranks(size, rank_fn)
        except Exception as ex:
            ctx.goal('no_exception:%s' % type(ex).__name__, False)
            return
    finally:
        for e in reversed(env):
            e.__exit__(None, None, None)
    expd = [S[i, 0] + 3.0 for i in range(n)]          # psum = p[0] + p[2], p[2] stays 3
    q16, q50, q84 = quantile_corner(np.array(expd, dtype=object if ctx.sym else float), [0.16, 0.5, 0.84], weights=w.copy())
    W = sum(w[1:], w[0])
    for r in range(size):
        dp = results[r]['psum_derived']
        tr = dp['trace']
        ctx.goal('trace_len[%d]' % r, len(tr) == n)
        if len(tr) != n:
            continue
        for i in range(n):
            ctx.goal('trace_in_sample_order[%d,%d]' % (r, i), ctx.eq(tr[i], expd[i]))
        ctx.goal('summaries[%d]' % r, ctx.and_(ctx.eq(dp['value'], q50), ctx.eq(dp['sigma_m'], q50 - q16), ctx.eq(dp['sigma_p'], q84 - q50)))
        ctx.goal('mean[%d]' % r, ctx.eq(dp['mean'] * W, sum((w[i] * expd[i] for i in range(1, n)), w[0] * expd[0])))


def _squared(ctx, v):
    """v*v for a returned standard deviation; in symbolic mode the argument of the sqrt application itself (the
    identity to prove is then a rational one; that sqrt is applied to it is visible in the term)"""
    import z3
    from symx.core import Sym
    if isinstance(v, Sym) and z3.is_app(v.t) and v.t.decl().name() == 'sqrt':
        return Sym(v.t.arg(0)), True
    return v * v, not ctx.sym


@harness('C18', 'profile_errors',
         quick=[dict(n=2, size=2), dict(n=2, size=3, _shards=2)],
         thorough=[dict(n=3, size=2, _shards=16), dict(n=2, size=4, _shards=4)],
         functions=FUNCS + ['taurex.optimizer.optimizer:Optimizer.generate_profiles', 'taurex.model.simplemodel:SimpleForwardModel.compute_error',
                            'taurex.optimizer.optimizer:Optimizer.sample_parameters'],
         stubs=['mpi4py -> sequential serialising communicator double', 'Optimizer.sample_parameters -> every sample with its weight (random subset / +1e-300 not the subject)',
                'forward model -> real SimpleForwardModel.compute_error on a state double whose spectrum/profiles are linear in the fitted parameter'],
         shard_depth=3, outside=['real MPI transport'])
def profile_errors(ctx, n, size):
    """Real Optimizer.generate_profiles + SimpleForwardModel.compute_error + OnlineVariance.parallelVariance on
    emulated ranks: every sample is processed by exactly one rank and the squared standard deviations of the native
    spectrum / temperature profile equal the single-process weighted variances, on every rank, for every rank count
    (including ranks that receive zero or one sample)."""
    import taurex.core.priors as pm
    import taurex.optimizer.nestle as nm
    import taurex.util.util as uu
    from taurex.model import TransmissionModel
    from taurex.optimizer.nestle import NestleOptimizer
    from taurex.data.spectrum.array import ArraySpectrum
    from . import stubs
    from .optdoubles import NestleResult, nestle_double
    from .common import patched
    from .c10 import _chem_env
    S = ctx.array('sample', (n, 1), gt=0, hint=(0.5, 3))
    w = ctx.reals('weight', n, gt=0, hint=(0.1, 1))
    native = np.array([900.0, 1000.0, 1100.0])
    processed = []

    def build():
        class _Chem(object):
            hasCondensates = False
            activeGasMixProfile = np.zeros((1, 2))
            inactiveGasMixProfile = np.zeros((1, 2))
            muProfile = np.ones(2)

        class _TM(TransmissionModel):
            def __init__(self):
                with _chem_env(['H2O']):
                    super().__init__(nlayers=2)
                self.scale = 1.0

                def fget(s):
                    return s.scale

                def fset(s, v):
                    s.scale = v
                self.add_fittable_param('scale', 'scale', fget, fset, 'linear', True, [0.1, 10.0])
                self._fitting_parameters = self.fitting_parameters()

            def initialize_profiles(self):
                pass

            @property
            def chemistry(self):
                return _Chem()

            @property
            def temperatureProfile(self):
                return np.array([1000.0, 500.0]) * self.scale if not ctx.sym else \
                    np.array([1000.0 * self.scale, 500.0 * self.scale], dtype=object)

            def model(self, wngrid=None, cutoff_grid=True):
                processed.append(self.scale)
                spec = np.array([1.0, 2.0, 3.0]) * self.scale if not ctx.sym else \
                    np.array([1.0 * self.scale, 2.0 * self.scale, 3.0 * self.scale], dtype=object)
                return native, spec, np.zeros((2, 3)), None
        m = _TM()
        arr = np.array([[10000.0 / 1050.0, 1.0, 0.1, 0.6], [10000.0 / 950.0, 1.0, 0.1, 0.6]])
        obs = ArraySpectrum(arr)
        opt = NestleOptimizer(observed=obs, model=m, sigma_fraction=1.0)
        for nme in list(m.fittingParameters):
            if nme != 'scale':
                opt.disable_fit(nme)
        opt.compile_params()
        res = NestleResult(S, w)
        with patched(nm, nestle=nestle_double(res)):
            opt._nestle_output = opt.store_nestle_output(res)
        # every sample, with its own weight (sample_parameters draws a random subset and adds 1e-300 to each weight:
        # neither is the subject here, and the 300-digit rational would only slow the solver down)
        opt.sample_parameters = lambda sol: [(S[i, :], w[i]) for i in range(n)]
        return opt
    env = [patched(uu, random_int_iter=lambda total, frac: iter(range(total)))]
    if ctx.sym:
        env.append(patched(pm, stats=stubs.stats_stub))
    for e in env:
        e.__enter__()
    try:
        the_opt = build()       # one model/optimizer per path: per-rank state lives in compute_error's OnlineVariance objects

        def rank_fn(r):
            return the_opt.generate_profiles(0, None)
        try:
            results = run_ranks(size, rank_fn)
        except Exception as ex:
            ctx.goal('no_exception:%s' % type(ex).__name__, False)
            return
    finally:
        for e in reversed(env):
            e.__exit__(None, None, None)
    W = sum(w[1:], w[0])
    ww = [w[i] for i in range(n)]
    mean = sum((ww[i] * S[i, 0] for i in range(1, n)), ww[0] * S[0, 0]) / W
    var = sum((ww[i] * (S[i, 0] - mean) * (S[i, 0] - mean) for i in range(1, n)), ww[0] * (S[0, 0] - mean) * (S[0, 0] - mean)) / W
    for r in range(size):
        prof, spec = results[r]
        nat = spec['native_std']
        tp = prof['temp_profile_std']
        if n < 2:
            continue
        for j, c in enumerate([1.0, 2.0, 3.0]):
            v = nat[j] if hasattr(nat, '__len__') else nat       # a scalar NaN where an array is required
            if isinstance(v, float) and v != v:
                ctx.goal('native_var[%d,%d]' % (r, j), False)
            else:
                sq, ok = _squared(ctx, v)
                ctx.goal('native_var[%d,%d]' % (r, j), ctx.and_(ok, ctx.eq(sq, c * c * var, scale=None if ctx.sym else 1.0)))
        for j, c in enumerate([1000.0, 500.0]):
            v = tp[j] if hasattr(tp, '__len__') else tp
            if isinstance(v, float) and v != v:
                ctx.goal('temp_var[%d,%d]' % (r, j), False)
            else:
                sq, ok = _squared(ctx, v)
                ctx.goal('temp_var[%d,%d]' % (r, j), ctx.and_(ok, ctx.eq(sq, c * c * var, scale=None if ctx.sym else 1.0)))
