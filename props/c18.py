"""C18 -- parallel post-processing is invariant to how samples are split across ranks."""
import math

import numpy as np

from symx.harness import harness
from .mpi_double import run_ranks

FUNCS = ['taurex.util.math:OnlineVariance.update', 'taurex.util.math:OnlineVariance.variance',
         'taurex.util.math:OnlineVariance.combine_variance', 'taurex.util.math:OnlineVariance.parallelVariance',
         'taurex.mpi:allgather', 'taurex.mpi:allreduce', 'taurex.mpi:get_rank', 'taurex.mpi:nprocs']


def _isnan(v):
    return isinstance(v, (float, np.floating)) and v != v


@harness('C18', 'online_variance',
         quick=[dict(n=2, size=2, dim=0), dict(n=3, size=2, dim=0), dict(n=3, size=2, dim=2),
                dict(n=3, size=3, dim=0, _shards=3), dict(n=1, size=2, dim=0)],
         thorough=[dict(n=2, size=2, dim=0), dict(n=3, size=2, dim=2), dict(n=4, size=2, dim=0, _shards=4),
                   dict(n=3, size=3, dim=2, _shards=3), dict(n=4, size=3, dim=0, _shards=9),
                   dict(n=4, size=2, dim=2, _shards=4), dict(n=5, size=2, dim=0, _shards=8),
                   dict(n=1, size=3, dim=0), dict(n=4, size=4, dim=0, _shards=16)],
         covers=['empty_rank', 'single_sample_rank', 'all_on_one_rank', 'spread'],
         functions=FUNCS, shard_depth=3,
         stubs=['mpi4py -> sequential communicator double; every exchanged value re-created '
                '(pickle round trip for concrete leaves, fresh wrapper for symbolic ones)'],
         outside=['real MPI transport', 'more ranks / samples than listed', 'Bcast buffer path'])
def online_variance(ctx, n, size, dim):
    """Real OnlineVariance.update on each rank's share + parallelVariance (through taurex.mpi and the
    communicator double) for EVERY assignment of n weighted samples to `size` ranks (assignment = symbolic
    selectors): result on every rank == two-pass weighted variance of all samples; <2 samples -> NaN."""
    from taurex.util.math import OnlineVariance
    w = ctx.reals('w', n, gt=0)
    if dim:
        x = ctx.array('x', (n, dim))
    else:
        x = ctx.reals('x', n)
    assign = [ctx.choice('rank_of_%d' % i, size) for i in range(n)]
    counts = [assign.count(r) for r in range(size)]
    if 0 in counts:
        ctx.cover('empty_rank')
    if 1 in counts:
        ctx.cover('single_sample_rank')
    if max(counts) == n:
        ctx.cover('all_on_one_rank')
    if min(counts) >= 1:
        ctx.cover('spread')
    ctx.note('assignment', assign)

    def rank_fn(r):
        ov = OnlineVariance()
        for i in range(n):
            if assign[i] == r:
                ov.update(x[i] if not dim else x[i].copy(), weight=w[i])
        return ov.parallelVariance()

    try:
        results = run_ranks(size, rank_fn)
    except Exception as ex:
        ctx.goal('no_exception:%s' % type(ex).__name__, False)
        return
    # two-pass weighted variance, written independently
    W = sum(w[1:], w[0])
    dims = range(dim) if dim else [None]
    for r in range(size):
        res = results[r]
        if n < 2:
            ctx.goal('nan_when_lt2[%d]' % r, _isnan(res))
            continue
        for d in dims:
            xs = [x[i] if d is None else x[i, d] for i in range(n)]
            m = sum((w[i] * xs[i] for i in range(1, n)), w[0] * xs[0]) / W
            var = sum((w[i] * (xs[i] - m) * (xs[i] - m) for i in range(1, n)),
                      w[0] * (xs[0] - m) * (xs[0] - m)) / W
            got = res if d is None else (res[d] if hasattr(res, '__len__') else res)
            if _isnan(got):
                ctx.goal('variance[%d,%s]' % (r, d), False)
            else:
                ctx.goal('variance[%d,%s]' % (r, d), ctx.eq(got, var, scale=None if ctx.sym else 1e-6))
