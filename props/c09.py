"""C09 -- posterior summaries are the weighted statistics of the stored samples."""
import numpy as np

from symx.harness import harness
from .common import patched
from . import stubs
from .optdoubles import REC, nestle_double, make_model, NestleResult

FUNCS = ['taurex.util.util:quantile_corner', 'taurex.optimizer.nestle:NestleOptimizer.store_nestle_output',
         'taurex.optimizer.nestle:NestleOptimizer.get_solution', 'taurex.optimizer.nestle:NestleOptimizer.get_samples',
         'taurex.optimizer.nestle:NestleOptimizer.get_weights', 'taurex.optimizer.optimizer:Optimizer.generate_solution',
         'taurex.optimizer.optimizer:Optimizer.compute_derived_trace', 'taurex.optimizer.optimizer:Optimizer.sample_parameters',
         'taurex.optimizer.optimizer:Optimizer.update_model']
STUBS = ['np.interp -> numpy-exact contract model (ties in xp resolved to the last node, validated differentially)',
         'nestle.mean_and_cov -> weighted mean by definition (covariance not examined)', 'nestle.sample -> returns the symbolic result',
         'forward model -> recording double built with the real Fittable machinery']


def _sorted_pairs(ctx, x, w):
    """independent sort of (x, w) by x (forks); stable for ties"""
    idx = list(range(len(x)))
    for i in range(1, len(idx)):
        j = i
        while j > 0 and bool(ctx.lt(x[idx[j]], x[idx[j - 1]])):
            idx[j], idx[j - 1] = idx[j - 1], idx[j]
            j -= 1
    return [x[i] for i in idx], [w[i] for i in idx]


def _quantile_def(ctx, x, w, q):
    """weighted quantile by definition: sorted values interpolated against the normalised cumulative weight"""
    xs, ws = _sorted_pairs(ctx, x, w)
    tot = sum(ws[1:], ws[0])
    c = []
    acc = 0.0
    for wi in ws:
        acc = acc + wi
        c.append(acc / tot)
    n = len(xs)
    if bool(ctx.lt(q, c[0])):
        return xs[0]
    j = 0
    for i in range(1, n):
        if bool(ctx.le_strict(c[i], q)):
            j = i
        else:
            break
    if j == n - 1:
        return xs[n - 1]
    if bool(ctx.eq(q, c[j])):
        return xs[j]
    return xs[j] + (xs[j + 1] - xs[j]) * (q - c[j]) / (c[j + 1] - c[j])


@harness('C09', 'quantile',
         quick=[dict(n=2), dict(n=3, _shards=4)], thorough=[dict(n=3, _shards=4), dict(n=4, _shards=16), dict(n=3, zeros=True, _shards=8)],
         functions=FUNCS, stubs=STUBS, shard_depth=4, max_paths=60000, covers=['tie_in_values'],
         outside=['more samples than listed'])
def quantile(ctx, n, zeros=False):
    """Real quantile_corner on a symbolic trace and symbolic weights (>0, or >=0 with positive total when zeros=True):
    equals the definition; q16 <= q50 <= q84; inside [min,max] of the trace; unchanged by a common rescaling of the
    weights."""
    from taurex.util.util import quantile_corner
    x = ctx.reals('x', n, hint=(-3, 3))
    w = ctx.reals('w', n, hint=(0.1, 2), **({'ge': 0} if zeros else {'gt': 0}))
    if zeros:
        ctx.assume(ctx.lt(0.0, sum(w[1:], w[0])))
        ctx.assume(ctx.lt(0.0, w[0]))     # first cumulative weight positive: otherwise numpy's interp sees 0/0 nodes
    s = ctx.real('scale', gt=0, hint=(0.5, 4))
    ctx.cover_if('tie_in_values', ctx.eq(x[0], x[1]))
    qs = [0.16, 0.5, 0.84]
    got = quantile_corner(x.copy(), qs, weights=w.copy())
    got2 = quantile_corner(x.copy(), qs, weights=w.copy() * s)
    ctx.goal('three_values', len(got) == 3)
    for k, q in enumerate(qs):
        ctx.goal('definition[%s]' % q, ctx.eq(got[k], _quantile_def(ctx, x, w, q)))
        ctx.goal('weight_scale_invariant[%s]' % q, ctx.eq(got[k], got2[k]))
        ctx.goal('in_range[%s]' % q, ctx.and_(ctx.or_([ctx.le(xi, got[k]) for xi in x]), ctx.or_([ctx.le(got[k], xi) for xi in x])))
    ctx.goal('ordered', ctx.and_(ctx.le(got[0], got[1]), ctx.le(got[1], got[2])))


def _optimizer(ctx, n, d, fit=('a', 'b')):
    import taurex.core.priors as pm
    import taurex.optimizer.nestle as nm
    from taurex.optimizer.nestle import NestleOptimizer
    from taurex.data.spectrum.array import ArraySpectrum
    nn = 3
    coef = [np.ones(nn) * (k + 1) for k in range(3)]
    model = make_model(coef, np.zeros(nn))
    model.native = np.array([900.0, 1000.0, 1100.0])
    arr = np.array([[10000.0 / 1050.0, 1.0, 0.1, 0.6], [10000.0 / 950.0, 1.0, 0.1, 0.6]])
    obs = ArraySpectrum(arr)
    opt = NestleOptimizer(observed=obs, model=model)
    opt.disable_fit('a')
    for p in fit:
        opt.enable_fit(p)
    return model, obs, opt


@harness('C09', 'nestle_store',
         quick=[dict(n=2, d=1), dict(n=2, d=2), dict(n=3, d=1, _shards=8)], thorough=[dict(n=3, d=2, _shards=16), dict(n=4, d=1, _shards=16), dict(n=2, d=2)],
         functions=FUNCS, stubs=STUBS, shard_depth=4, max_paths=80000, covers=['unique_max_weight'])
def nestle_store(ctx, n, d):
    """Real NestleOptimizer.store_nestle_output + get_solution on a result double with symbolic samples (n x d) and
    weights: stored samples/weights are the sampler's arrays unchanged; per fit name value = q50, sigma_m = q50-q16,
    sigma_p = q84-q50 of ITS column, map = the sample of greatest weight, mean = weighted mean; get_solution hands
    back the MAP and median vectors in fit-name order."""
    import taurex.core.priors as pm
    import taurex.optimizer.nestle as nm
    from taurex.util.util import quantile_corner
    fit = ('b', 'c')[:d] if d < 2 else ('a', 'b')
    model, obs, opt = _optimizer(ctx, n, d, fit)
    S = ctx.array('sample', (n, d), hint=(0.5, 3))
    w = ctx.reals('weight', n, gt=0, hint=(0.1, 1))
    env = [patched(pm, stats=stubs.stats_stub)] if ctx.sym else []
    for e in env:
        e.__enter__()
    try:
        opt.compile_params()
        names = opt.fit_names
        res = NestleResult(S, w)
        if ctx.sym:
            with patched(nm, nestle=nestle_double(res)):
                out = opt.store_nestle_output(res)
        else:
            out = opt.store_nestle_output(res)
        opt._nestle_output = out
        sol = list(opt.get_solution())
    finally:
        for e in reversed(env):
            e.__exit__(None, None, None)
    ctx.goal('samples_unchanged', out['solution']['samples'] is S and out['solution']['weights'] is w)
    ctx.goal('one_entry_per_fit_name', list(out['solution']['fitparams']) == list(names) and len(names) == d)
    W = sum(w[1:], w[0])
    ismax = [ctx.and_([ctx.le(w[j], w[i]) for j in range(n)]) for i in range(n)]
    ctx.cover_if('unique_max_weight', ctx.and_([ctx.lt(w[j], w[0]) for j in range(1, n)]))
    for k, nme in enumerate(names):
        p = out['solution']['fitparams'][nme]
        col = [S[i, k] for i in range(n)]
        q16, q50, q84 = quantile_corner(np.array(col, dtype=object if ctx.sym else float), [0.16, 0.5, 0.84], weights=w.copy())
        ctx.goal('value[%s]' % nme, ctx.eq(p['value'], q50))
        ctx.goal('sigma_m[%s]' % nme, ctx.eq(p['sigma_m'], q50 - q16))
        ctx.goal('sigma_p[%s]' % nme, ctx.eq(p['sigma_p'], q84 - q50))
        ctx.goal('trace[%s]' % nme, len(p['trace']) == n and all(bool(ctx.eq(p['trace'][i], col[i])) for i in range(n)) if not ctx.sym else
                 ctx.and_([ctx.eq(p['trace'][i], col[i]) for i in range(n)]))
        ctx.goal('map[%s]' % nme, ctx.or_([ctx.and_(ismax[i], ctx.eq(p['map'], col[i])) for i in range(n)]))
        ctx.goal('mean[%s]' % nme, ctx.eq(p['mean'] * W, sum((w[i] * col[i] for i in range(1, n)), w[0] * col[0])))
        ctx.goal('solution_map[%s]' % nme, ctx.eq(sol[0][1][k], p['map']))
        ctx.goal('solution_median[%s]' % nme, ctx.eq(sol[0][2][k], p['value']))
    ctx.goal('one_solution', len(sol) == 1 and sol[0][0] == 0)
    # the MAP vector is one sample row (all parameters from the SAME sample)
    ctx.goal('map_is_a_sample', ctx.or_([ctx.and_([ismax[i]] + [ctx.eq(sol[0][1][k], S[i, k]) for k in range(d)]) for i in range(n)]))


@harness('C09', 'solution',
         quick=[dict(n=2, d=1, derived=True), dict(n=2, d=2, derived=False, _shards=4)],
         thorough=[dict(n=3, d=2, derived=True, _shards=16), dict(n=3, d=1, derived=True, _shards=4)],
         functions=FUNCS, stubs=STUBS, shard_depth=4, max_paths=80000,
         outside=['contents of Contributions (store_contributions) and of the profile dictionaries (C11/C16)'])
def solution(ctx, n, d, derived):
    """Real generate_solution / compute_derived_trace after a (stubbed) nestle run: the stored solution spectrum is the
    model evaluated with the fitted parameters at the MAP (full native grid) and binned by the observation's binner;
    the profiles are generated with the parameters at the median; each derived trace has one entry per sample in
    sample order and its summaries follow the same quantile rule."""
    import taurex.core.priors as pm
    import taurex.optimizer.nestle as nm
    from taurex.util.util import quantile_corner
    from taurex import OutputSize
    fit = ('a',) if d == 1 else ('a', 'c')
    model, obs, opt = _optimizer(ctx, n, d, fit)
    if derived:
        opt.enable_derived('psum')
    S = ctx.array('sample', (n, d), gt=0, hint=(0.5, 3))
    w = ctx.reals('weight', n, gt=0, hint=(0.1, 1))
    if derived:
        for i in range(n):
            for j in range(i + 1, n):
                ctx.assume(ctx.ne(w[i], w[j]))       # distinct weights (ties: see C18)
    env = [patched(pm, stats=stubs.stats_stub)] if ctx.sym else []
    for e in env:
        e.__enter__()
    try:
        opt.compile_params()
        res = NestleResult(S, w)
        with patched(nm, nestle=nestle_double(res)):
            opt._nestle_output = opt.store_nestle_output(res)
        prof_calls = []
        real_gp = model.generate_profiles if hasattr(model, 'generate_profiles') else None
        model.generate_profiles = lambda: (prof_calls.append(list(model.p)) or {})
        model.calls[:] = []
        sd = opt.generate_solution(output_size=OutputSize.light)
        sol = list(opt.get_solution())[0]
    finally:
        for e in reversed(env):
            e.__exit__(None, None, None)
    ctx.goal('one_solution', list(sd) == ['solution0'])
    s0 = sd['solution0']
    idx = {'a': 0, 'b': 1, 'c': 2}
    mapv, medv = sol[1], sol[2]
    # first model call: at the MAP, full native grid; second: at the median
    ctx.goal('two_model_runs_first', len(model.calls) >= 2 and model.calls[0][1] is False and model.calls[1][1] is False)
    if len(model.calls) < 2:
        return
    for k, nme in enumerate(fit):
        ctx.goal('spectrum_at_map[%s]' % nme, ctx.eq(model.calls[0][0][idx[nme]], mapv[k]))
        ctx.goal('profiles_at_median[%s]' % nme, ctx.and_(ctx.eq(model.calls[1][0][idx[nme]], medv[k]),
                                                         len(prof_calls) == 1 and ctx.eq(prof_calls[0][idx[nme]], medv[k])))
    spec_map = np.array([sum(model.calls[0][0][kk] * (kk + 1) for kk in range(3))] * 3, dtype=object if ctx.sym else float)
    binned = opt._binner.bindown(model.native, spec_map)[1]
    got = s0['Spectra']['binned_spectrum']
    ctx.goal('binned_spectrum_len', len(got) == len(binned))
    for i in range(len(binned)):
        ctx.goal('binned_spectrum[%d]' % i, ctx.eq(got[i], binned[i], scale=None if ctx.sym else 1.0))
    for i in range(3):
        ctx.goal('native_spectrum[%d]' % i, ctx.eq(s0['Spectra']['native_spectrum'][i], spec_map[i]))
    if derived:
        dp = s0['derived_params']['psum_derived']
        tr = dp['trace']
        ctx.goal('derived_trace_len', len(tr) == n)
        expd = []
        for i in range(n):
            pv = [1.0, 2.0, 3.0]
            for k, nme in enumerate(fit):
                pv[idx[nme]] = S[i, k]
            # non-fitted parameters keep whatever they were: the double starts at [1,2,3]
            expd.append(pv[0] + pv[2])
        for i in range(n):
            ctx.goal('derived_trace_in_sample_order[%d]' % i, ctx.eq(tr[i], expd[i]))
        q16, q50, q84 = quantile_corner(np.array(expd, dtype=object if ctx.sym else float), [0.16, 0.5, 0.84], weights=w.copy())
        ctx.goal('derived_summaries', ctx.and_(ctx.eq(dp['value'], q50), ctx.eq(dp['sigma_m'], q50 - q16), ctx.eq(dp['sigma_p'], q84 - q50)))
