"""C10 -- atmospheric composition is a valid mixture for every input."""
import math

import numpy as np

from symx.harness import harness
from .common import patched

FUNCS = ['taurex.data.profiles.chemistry.taurexchemistry:TaurexChemistry.__init__',
         'taurex.data.profiles.chemistry.taurexchemistry:TaurexChemistry.addGas',
         'taurex.data.profiles.chemistry.taurexchemistry:TaurexChemistry.initialize_chemistry',
         'taurex.data.profiles.chemistry.taurexchemistry:TaurexChemistry.fill_atmosphere',
         'taurex.data.profiles.chemistry.autochemistry:AutoChemistry.determine_active_inactive',
         'taurex.data.profiles.chemistry.autochemistry:AutoChemistry.compute_mu_profile',
         'taurex.data.profiles.chemistry.autochemistry:AutoChemistry.activeGasMixProfile',
         'taurex.data.profiles.chemistry.autochemistry:AutoChemistry.inactiveGasMixProfile',
         'taurex.data.profiles.chemistry.chemistry:Chemistry.get_gas_mix_profile',
         'taurex.data.profiles.chemistry.chemistry:Chemistry.initialize_chemistry',
         'taurex.data.profiles.chemistry.gas.constantgas:ConstantGas.initialize_profile',
         'taurex.data.profiles.chemistry.gas.arraygas:ArrayGas.initialize_profile',
         'taurex.data.profiles.chemistry.gas.twopointgas:TwoPointGas.initialize_profile',
         'taurex.data.profiles.chemistry.gas.twolayergas:TwoLayerGas.initialize_profile',
         'taurex.data.profiles.chemistry.gas.powergas:PowerGas.initialize_profile',
         'taurex.util.util:movingaverage', 'taurex.util.util:get_molecular_weight']

FILL = ['H2', 'He', 'N2']
TRACE = ['H2O', 'CH4', 'CO2']


class _Cache(object):
    """double for OpacityCache/KTableCache: which molecules have opacity data"""
    def __init__(self, mols):
        self.mols = mols

    def __call__(self):
        return self

    def find_list_of_molecules(self):
        return list(self.mols)


def _chem_env(avail):
    import taurex.data.profiles.chemistry.chemistry as cm
    c = _Cache(avail)
    return patched(cm, OpacityCache=c, KTableCache=c)


@harness('C10', 'mixture',
         quick=[dict(n=2, nfill=2, ntrace=2, prof='array'), dict(n=3, nfill=3, ntrace=1, prof='array'),
                dict(n=4, nfill=3, ntrace=2, prof='constant'), dict(n=2, nfill=1, ntrace=2, prof='array'),
                dict(n=3, nfill=2, ntrace=0, prof='constant')],
         thorough=[dict(n=3, nfill=2, ntrace=2, prof='array', _shards=8), dict(n=3, nfill=3, ntrace=2, prof='array', _shards=16),
                   dict(n=6, nfill=3, ntrace=2, prof='constant', _shards=4), dict(n=3, nfill=1, ntrace=2, prof='array', _shards=4),
                   dict(n=8, nfill=2, ntrace=1, prof='constant'), dict(n=3, nfill=2, ntrace=0, prof='constant')],
         covers=['valid', 'rejected', 'some_active', 'some_inactive'], functions=FUNCS, shard_depth=4,
         stubs=['OpacityCache/KTableCache.find_list_of_molecules -> symbolic subset of the gases (selectors)'],
         outside=['layer counts / gas counts beyond those listed', 'ChemistryFile', 'formula parser on arbitrary strings'])
def mixture(ctx, n, nfill, ntrace, prof):
    """Real TaurexChemistry (+ConstantGas/ArrayGas traces with symbolic non-negative per-layer abundances,
    symbolic non-negative fill ratios, symbolic 'has opacity data' flags): ratios >=0, sum to 1 per layer,
    fill_i = ratio_i * fill_0, mu = sum mix*mass, rejected (InvalidChemistryException) iff traces exceed 1
    in some layer, active/inactive split == data availability with rows aligned to gas names."""
    from taurex.data.profiles.chemistry import TaurexChemistry, ConstantGas
    from taurex.data.profiles.chemistry.gas.arraygas import ArrayGas
    from taurex.data.profiles.chemistry.taurexchemistry import InvalidChemistryException
    from taurex.util.util import get_molecular_weight
    fill = FILL[:nfill]
    traces = TRACE[:ntrace]
    ratios = [ctx.real('ratio_%d' % i, ge=0) for i in range(nfill - 1)]
    if prof == 'constant':
        c = [ctx.real('mix_%d' % j, ge=0) for j in range(ntrace)]
        tr = [[c[j]] * n for j in range(ntrace)]
    else:
        tr = [[ctx.real('mix_%d_%d' % (j, l), ge=0) for l in range(n)] for j in range(ntrace)]
    gases = fill + traces
    active_flags = [ctx.boolean('has_data_%s' % g) for g in gases]
    avail = [g for g, a in zip(gases, active_flags) if a] + ['NH3']
    if any(active_flags):
        ctx.cover('some_active')
    if not all(active_flags):
        ctx.cover('some_inactive')
    P = np.logspace(5, 0, n)
    T = np.ones(n) * 1000.0
    with _chem_env(avail):
        chem = TaurexChemistry(fill_gases=list(fill) if nfill > 1 else fill[0], ratio=list(ratios) if nfill != 2 else (ratios if ctx.sym else [float(ratios[0])]))
        for j, g in enumerate(traces):
            if prof == 'constant':
                chem.addGas(ConstantGas(g, mix_ratio=c[j]))
            else:
                chem.addGas(ArrayGas(g, mix_ratio_array=list(tr[j])))
        try:
            chem.initialize_chemistry(n, T, P, None)
            raised = False
        except InvalidChemistryException:
            raised = True
        # second evaluation of the SAME object after a sampler step changed the fill ratios through their fitting
        # parameters: the composition must follow the current values only
        second = None
        if not raised and nfill > 1:
            ratios2 = [ctx.real('ratio2_%d' % i, ge=0) for i in range(nfill - 1)]
            fp = chem.fitting_parameters()
            for i in range(nfill - 1):
                fp['%s_%s' % (fill[i + 1], fill[0])][3](ratios2[i])
            try:
                chem.initialize_chemistry(n, T, P, None)
                second = (ratios2, chem.mixProfile.copy(), chem.muProfile.copy())
            except InvalidChemistryException:
                second = 'raised'
            for i in range(nfill - 1):
                fp['%s_%s' % (fill[i + 1], fill[0])][3](ratios[i])
            chem.initialize_chemistry(n, T, P, None)
    totals = [sum((tr[j][l] for j in range(ntrace)), 0.0) for l in range(n)]
    exceeds = ctx.or_([ctx.lt(1.0, totals[l]) for l in range(n)]) if ntrace else False
    if raised:
        ctx.cover('rejected')
        ctx.goal('rejected_only_if_exceeds', exceeds)
        return
    ctx.cover('valid')
    ctx.goal('accepted_only_if_within', ctx.not_(exceeds) if ntrace else True)
    mix = chem.mixProfile
    ctx.goal('shape', np.shape(mix) == (len(gases), n))
    if np.shape(mix) != (len(gases), n):
        return
    # active / inactive split and row alignment
    exp_act = [g for g, a in zip(gases, active_flags) if a]
    exp_inact = [g for g, a in zip(gases, active_flags) if not a]
    ctx.goal('active_split', list(chem.activeGases) == exp_act and list(chem.inactiveGases) == exp_inact)
    rsum = sum(ratios, 0.0)
    for l in range(n):
        tot = sum((mix[g, l] for g in range(1, len(gases))), mix[0, l])
        ctx.goal('sum_to_one[%d]' % l, ctx.eq(tot, 1.0))
        for g in range(len(gases)):
            ctx.goal('nonneg[%s,%d]' % (gases[g], l), ctx.le(0.0, mix[g, l]))
        for i in range(1, nfill):
            ctx.goal('fill_ratio[%s,%d]' % (fill[i], l), ctx.eq(mix[i, l], ratios[i - 1] * mix[0, l]))
        for j in range(ntrace):
            ctx.goal('trace_is_profile[%s,%d]' % (traces[j], l), ctx.eq(mix[nfill + j, l], tr[j][l]))
        mu = sum((mix[g, l] * get_molecular_weight(gases[g]) for g in range(1, len(gases))),
                 mix[0, l] * get_molecular_weight(gases[0]))
        ctx.goal('mu[%d]' % l, ctx.eq(chem.muProfile[l], mu))
        for g, name in enumerate(gases):
            ctx.goal('get_gas_mix_profile[%s,%d]' % (name, l), ctx.eq(chem.get_gas_mix_profile(name)[l], mix[g, l]))
    if second is not None:
        ctx.goal('second_evaluation_accepted', second != 'raised')
        if second != 'raised':
            ratios2, mix2, mu2 = second
            for l in range(n):
                tot2 = sum((mix2[g, l] for g in range(1, len(gases))), mix2[0, l])
                ctx.goal('second_sum_to_one[%d]' % l, ctx.eq(tot2, 1.0))
                for i in range(1, nfill):
                    ctx.goal('second_fill_ratio[%s,%d]' % (fill[i], l), ctx.eq(mix2[i, l], ratios2[i - 1] * mix2[0, l]))
                mu = sum((mix2[g, l] * get_molecular_weight(gases[g]) for g in range(1, len(gases))),
                         mix2[0, l] * get_molecular_weight(gases[0]))
                ctx.goal('second_mu[%d]' % l, ctx.eq(mu2[l], mu))
    am, im = chem.activeGasMixProfile, chem.inactiveGasMixProfile
    ctx.goal('mask_rows', (am is None) == (len(exp_act) == 0) and (im is None) == (len(exp_inact) == 0) and
             (am is None or len(am) == len(exp_act)) and (im is None or len(im) == len(exp_inact)))


def _between(ctx, v, a, b):
    lo = ctx.ite(ctx.le_strict(a, b), a, b)
    hi = ctx.ite(ctx.le_strict(a, b), b, a)
    return ctx.and_(ctx.le(lo, v), ctx.le(v, hi))


@harness('C10', 'profiles',
         quick=[dict(kind='constant', n=3), dict(kind='twopoint', n=2), dict(kind='twopoint', n=4),
                dict(kind='array', n=3, m=2), dict(kind='array', n=2, m=3), dict(kind='power', n=3),
                dict(kind='twolayer', n=2), dict(kind='twolayer', n=3), dict(kind='twolayer', n=5, _shards=4)],
         thorough=[dict(kind='constant', n=12), dict(kind='twopoint', n=6), dict(kind='twopoint', n=12),
                   dict(kind='array', n=6, m=3, _shards=4), dict(kind='array', n=12, m=2, _shards=4), dict(kind='array', n=3, m=6),
                   dict(kind='power', n=6), dict(kind='power', n=12)] +
                  [dict(kind='twolayer', n=k, _shards=4) for k in (2, 3, 4, 5, 6, 8)] +
                  [dict(kind='twolayer', n=k, sorted_only=True, smooth=10) for k in (10, 20, 30)],
         functions=FUNCS, shard_depth=3, max_paths=50000,
         stubs=['np.interp -> piecewise-linear clamped contract model', 'log10/exp10/ln/sqrt/pow: UF + monotonicity, '
                'inverse-pair, positivity lemma instances'],
         outside=['the power law for user-supplied (alpha,beta,gamma) beyond positivity', 'layer counts beyond those listed'])
def profiles(ctx, kind, n, m=0, sorted_only=False, smooth=10):
    """Real gas-profile classes on a symbolic strictly decreasing positive pressure grid (and T>0): one value
    per layer, inside the range of the control values (power law: 0 < mix <= deep value), ends exact."""
    from taurex.data.profiles.chemistry import ConstantGas
    from taurex.data.profiles.chemistry.gas.arraygas import ArrayGas
    from taurex.data.profiles.chemistry.gas.twopointgas import TwoPointGas
    from taurex.data.profiles.chemistry.gas.twolayergas import TwoLayerGas
    from taurex.data.profiles.chemistry.gas.powergas import PowerGas
    P = ctx.reals('P', n, gt=0)
    for i in range(n - 1):
        ctx.assume(P[i] > P[i + 1])
    T = ctx.reals('T', n, gt=0)
    s = ctx.real('surface', gt=0)
    t = ctx.real('top', gt=0)
    if kind == 'constant':
        g = ConstantGas('H2O', mix_ratio=s)
        g.initialize_profile(n, T, P, None)
        mix = g.mixProfile
        ctx.goal('len', len(mix) == n)
        for l in range(n):
            ctx.goal('const[%d]' % l, ctx.eq(mix[l], s))
    elif kind == 'twopoint':
        g = TwoPointGas('H2O', mix_ratio_surface=s, mix_ratio_top=t)
        g.initialize_profile(n, T, P, None)
        mix = g.mixProfile
        ctx.goal('len', len(mix) == n)
        if ctx.sym:
            ctx.exp10(ctx.log10(s))
            ctx.exp10(ctx.log10(t))
        ctx.goal('ends', ctx.and_(ctx.eq(mix[0], s), ctx.eq(mix[-1], t)))
        for l in range(n):
            ctx.goal('range[%d]' % l, _between(ctx, mix[l], s, t))
    elif kind == 'array':
        arr = [ctx.real('ctl_%d' % i, ge=0) for i in range(m)]
        g = ArrayGas('H2O', mix_ratio_array=list(arr))
        g.initialize_profile(n, T, P, None)
        mix = g.mixProfile
        ctx.goal('len', len(mix) == n)
        ctx.goal('ends', ctx.and_(ctx.eq(mix[0], arr[0]), ctx.eq(mix[-1], arr[-1])))
        for l in range(n):
            ctx.goal('range[%d]' % l, ctx.and_(ctx.or_([ctx.le(a, mix[l]) for a in arr]),
                                               ctx.or_([ctx.le(mix[l], a) for a in arr])))
    elif kind == 'power':
        g = PowerGas('H2O', mix_ratio_surface=s)     # documented H2O coefficients
        g.initialize_profile(n, T, P, None)
        mix = g.mixProfile
        ctx.goal('len', len(mix) == n)
        for l in range(n):
            ctx.goal('range[%d]' % l, ctx.and_(ctx.lt(0.0, mix[l]), ctx.le(mix[l], s)))
    elif kind == 'twolayer':
        Pm = ctx.real('P_mix', gt=0)
        g = TwoLayerGas('CH4', mix_ratio_surface=s, mix_ratio_top=t, mix_ratio_P=Pm, mix_ratio_smoothing=smooth)
        if sorted_only:
            # larger layer counts: the knee is pinned between two given layers to bound the path count
            k = n // 2
            ctx.assume(ctx.and_(P[k] > Pm, Pm > P[k + 1], P[k] - Pm < Pm - P[k + 1]))
        try:
            g.initialize_profile(n, T, P, None)
        except Exception as ex:
            ctx.goal('no_exception:%s' % type(ex).__name__, False)
            return
        mix = g.mixProfile
        ctx.goal('len', len(mix) == n)
        if len(mix) != n:
            return
        if ctx.sym:
            ctx.exp10(ctx.log10(s))
            ctx.exp10(ctx.log10(t))
        for l in range(n):
            ctx.goal('range[%d]' % l, _between(ctx, mix[l], s, t))
