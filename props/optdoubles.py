"""doubles for the optimizer harnesses: recording samplers (nestle / pymultinest / pypolychord), a forward model
whose native spectrum is a symbolic function of its fit parameters, the prior ppf stubs."""
import sys
import types

import numpy as np

REC = {}


def _install_sampler_doubles():
    if 'pymultinest' not in sys.modules or not hasattr(sys.modules['pymultinest'], '_symx_double'):
        pm = types.ModuleType('pymultinest')
        pm._symx_double = True

        def run(LogLikelihood=None, Prior=None, n_dims=None, **kw):
            REC['multinest'] = dict(loglike=LogLikelihood, prior=Prior, ndim=n_dims, kw=kw)
        pm.run = run

        class Analyzer(object):
            def __init__(self, *a, **k):
                self.args = (a, k)
        pm.Analyzer = Analyzer
        sys.modules['pymultinest'] = pm
    if 'pypolychord' not in sys.modules or not hasattr(sys.modules['pypolychord'], '_symx_double'):
        pc = types.ModuleType('pypolychord')
        pc._symx_double = True

        def run_polychord(loglike, ndim, nderived, settings, prior):
            REC['polychord'] = dict(loglike=loglike, prior=prior, ndim=ndim, nderived=nderived, settings=settings)
        pc.run_polychord = run_polychord
        st = types.ModuleType('pypolychord.settings')

        class PolyChordSettings(object):
            def __init__(self, ndim, nderived):
                self.nDims, self.nDerived = ndim, nderived
        st.PolyChordSettings = PolyChordSettings
        pr = types.ModuleType('pypolychord.priors')
        pr.UniformPrior = object
        pc.settings, pc.priors = st, pr
        sys.modules['pypolychord'] = pc
        sys.modules['pypolychord.settings'] = st
        sys.modules['pypolychord.priors'] = pr


_install_sampler_doubles()


class NestleResult(object):
    """what nestle.sample returns, as far as the wrapper reads it"""
    def __init__(self, samples, weights, logz=0.0, logzerr=0.0, h=0.0):
        self.samples, self.weights = samples, weights
        self.logz, self.logzerr, self.h = logz, logzerr, h
        self.ncall, self.niter = 1, 1

    def summary(self):
        return ''


def nestle_double(result=None):
    ns = types.SimpleNamespace()

    def sample(loglike, prior_transform, ndim, **kw):
        REC['nestle'] = dict(loglike=loglike, prior=prior_transform, ndim=ndim, kw=kw)
        return result
    ns.sample = sample
    ns.print_progress = None

    def mean_and_cov(x, weights):
        # definitions (nestle.mean_and_cov): weighted mean and covariance
        x = np.asarray(x)
        w = np.asarray(weights)
        mean = np.average(x, weights=w, axis=0)
        dx = x - mean
        wsum = np.sum(w)
        w2sum = np.sum(w * w)
        if x.dtype != object:
            cov = wsum / (wsum * wsum - w2sum) * np.einsum('i,ij,ik', w, dx, dx)
        else:
            cov = np.zeros((x.shape[1], x.shape[1]))       # covariance is not examined
        return mean, cov
    ns.mean_and_cov = mean_and_cov
    return ns


def make_model(coef, const, limit=None, names=('a', 'b', 'c'), bounds=None, fits=(True, False, False)):
    """ForwardModel double built with the real Fittable machinery: native spectrum_j = sum_k p_k*coef[k][j] + const[j];
    raises InvalidModelException when p_0 > limit (a symbolic validity condition)."""
    from taurex.model import ForwardModel
    from taurex.exceptions import InvalidModelException

    class _Chem(object):
        muProfile = [1.0]
        hasCondensates = False
        activeGasMixProfile = np.zeros((1, 1))
        inactiveGasMixProfile = np.zeros((1, 1))

    class SymLineModel(ForwardModel):
        def __init__(self):
            super().__init__('SymLineModel')
            self.p = [1.0, 2.0, 3.0][:len(coef)]
            self.calls = []
            self.native = None
            modes = ['linear', 'log', 'linear']
            for k in range(len(coef)):
                def fget(s, k=k):
                    return s.p[k]

                def fset(s, v, k=k):
                    s.p[k] = v
                self.add_fittable_param(names[k], names[k], fget, fset, modes[k], fits[k],
                                        bounds[k] if bounds is not None else [0.5 + k, 5.0 + k])

            def dget(s):
                return s.p[0] + s.p[-1]
            self.add_derived_param('psum', 'psum', dget, False)

        def build(self):
            pass

        def initialize_profiles(self):
            pass

        @property
        def chemistry(self):
            return _Chem()

        @property
        def temperatureProfile(self):
            return np.zeros(1)

        @property
        def nativeWavenumberGrid(self):
            return self.native

        def model(self, wngrid=None, cutoff_grid=True):
            self.calls.append((list(self.p), cutoff_grid))
            if limit is not None and bool(self.p[0] > limit):
                raise InvalidModelException('parameter outside validity range')
            spec = const
            for k in range(len(coef)):
                spec = spec + self.p[k] * coef[k]
            return self.native, spec, np.zeros((1, len(self.native))), None

        def compute_error(self, samples, wngrid=None, binner=None):
            return {}, {}

        def write(self, output):
            return output
    return SymLineModel()
