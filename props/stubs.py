"""contract stubs for C-level routines (scipy.stats ppf, literal_eval on identifier tokens)"""
import ast
import math
import types

import numpy as np

from symx.core import Sym, uf_apply, lift, engine
import z3


def _is_sym(*xs):
    return any(isinstance(x, Sym) for x in xs)


class _UniformStub(object):
    @staticmethod
    def ppf(q, loc=0, scale=1):
        # documented contract on 0<=q<=1, scale>0: loc + scale*q
        return loc + scale * q


class _NormStub(object):
    @staticmethod
    def ppf(q, loc=0, scale=1):
        # loc + scale * Phi^-1(q), Phi^-1 uninterpreted: strictly increasing, Phi^-1(1/2)=0, odd about 1/2
        z = uf_apply('ppf', q)
        e = engine()
        qt = z3.simplify(lift(q))
        # oddness instance: ppf(1-q) = -ppf(q)
        mirror = z3.simplify(1 - qt)
        zm = z3.Function('ppf', z3.RealSort(), z3.RealSort())(mirror)
        e.add_lemma(zm == -z.t)
        e.add_lemma(z3.Implies(qt < z3.RealVal('1/2'), z.t < 0))
        e.add_lemma(z3.Implies(qt > z3.RealVal('1/2'), z.t > 0))
        return loc + scale * z


stats_stub = types.SimpleNamespace(uniform=_UniformStub, norm=_NormStub)


def make_literal_eval(tokens):
    """ast.literal_eval that additionally resolves identifier tokens (symbolic numeric literals)"""
    real = ast.literal_eval

    def ev(node):
        if isinstance(node, ast.Name) and node.id in tokens:
            return tokens[node.id]
        if isinstance(node, ast.List):
            return [ev(e) for e in node.elts]
        if isinstance(node, ast.Tuple):
            return tuple(ev(e) for e in node.elts)
        if isinstance(node, ast.UnaryOp) and isinstance(node.op, ast.USub):
            return -ev(node.operand)
        return real(node)
    return ev
