"""contract stubs for C-level routines (scipy.stats ppf, literal_eval on identifier tokens)"""
import ast
import math
import types

import numpy as np

from symx.core import Sym, uf_apply, lift, engine
import z3


def _is_sym(*xs):
    return any(isinstance(x, Sym) for x in xs)


class _UniformStub(object):
    @staticmethod
    def ppf(q, loc=0, scale=1):
        # documented contract on 0<=q<=1, scale>0: loc + scale*q
        return loc + scale * q


class _NormStub(object):
    @staticmethod
    def ppf(q, loc=0, scale=1):
        # loc + scale * Phi^-1(q), Phi^-1 uninterpreted: strictly increasing, Phi^-1(1/2)=0, odd about 1/2
        z = uf_apply('ppf', q)
        e = engine()
        qt = z3.simplify(lift(q))
        # oddness instance: ppf(1-q) = -ppf(q)
        mirror = z3.simplify(1 - qt)
        zm = z3.Function('ppf', z3.RealSort(), z3.RealSort())(mirror)
        e.add_lemma(zm == -z.t)
        e.add_lemma(z3.Implies(qt < z3.RealVal('1/2'), z.t < 0))
        e.add_lemma(z3.Implies(qt > z3.RealVal('1/2'), z.t > 0))
        return loc + scale * z


stats_stub = types.SimpleNamespace(uniform=_UniformStub, norm=_NormStub)


def make_literal_eval(tokens):
    """ast.literal_eval that additionally resolves identifier tokens (symbolic numeric literals)"""
    real = ast.literal_eval

    def ev(node):
        if isinstance(node, ast.Name) and node.id in tokens:
            return tokens[node.id]
        if isinstance(node, ast.List):
            return [ev(e) for e in node.elts]
        if isinstance(node, ast.Tuple):
            return tuple(ev(e) for e in node.elts)
        if isinstance(node, ast.UnaryOp) and isinstance(node.op, ast.USub):
            return -ev(node.operand)
        return real(node)
    return ev


class Interp1dModel(object):
    """contract of scipy.interpolate.interp1d(kind='linear', bounds_error=False, fill_value=(below, above)):
    sorts x (assume_sorted=False), piecewise linear inside, fill values outside"""
    def __init__(self, x, y, axis=-1, copy=True, bounds_error=None, fill_value=np.nan, assume_sorted=False, **kw):
        from symx.shim import interp_model
        x = list(x)
        y = np.asarray(y, dtype=object)
        if axis not in (-1, 0):
            raise NotImplementedError
        self.axis = axis
        if not assume_sorted:
            order = sorted(range(len(x)), key=_SortKey(x))
            x = [x[i] for i in order]
            y = y[order] if (axis == 0 or y.ndim == 1) else y[..., order]
        self.x, self.y = x, y
        if isinstance(fill_value, tuple):
            self.below, self.above = fill_value
        else:
            self.below = self.above = fill_value

    def __call__(self, xn):
        from symx.shim import interp_model
        if self.y.ndim == 1:
            return interp_model(xn, self.x, list(self.y), left=self.below, right=self.above)
        # axis 0, 2-D y: column by column
        xn = list(xn)
        out = np.empty((len(xn),) + self.y.shape[1:], dtype=object)
        for j in np.ndindex(self.y.shape[1:]):
            col = [self.y[(i,) + j] for i in range(self.y.shape[0])]
            lb = self.below[j] if hasattr(self.below, '__len__') else self.below
            ab = self.above[j] if hasattr(self.above, '__len__') else self.above
            res = interp_model(xn, self.x, col, left=lb, right=ab)
            for i in range(len(xn)):
                out[(i,) + j] = res[i]
        return out


class _SortKey(object):
    def __init__(self, x):
        self.x = x

    def __call__(self, i):
        return _K(self.x[i])


class _K(object):
    __slots__ = ('v',)

    def __init__(self, v):
        self.v = v

    def __lt__(self, o):
        return bool(self.v < o.v)


def expn_model(n, x):
    """scipy.special.expn(2, x) -> UF E2 (positive, decreasing, <=1 on x>=0)"""
    if n != 2:
        raise NotImplementedError
    if isinstance(x, np.ndarray):
        out = np.empty(x.shape, dtype=object)
        for i in np.ndindex(x.shape):
            out[i] = uf_apply('E2', x[i]) if isinstance(x[i], Sym) else __import__('scipy.special').special.expn(2, float(x[i]))
        return out
    return uf_apply('E2', x)
