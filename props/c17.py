"""C17 -- observations load independent of row order with aligned columns and units."""
import types

import numpy as np

from symx.harness import harness
from .common import patched

FUNCS = ['taurex.data.spectrum.array:ArraySpectrum.__init__', 'taurex.data.spectrum.array:ArraySpectrum._sort_spectrum',
         'taurex.data.spectrum.array:ArraySpectrum._process_spectrum', 'taurex.data.spectrum.array:ArraySpectrum.manual_binning',
         'taurex.data.spectrum.array:ArraySpectrum.binEdges', 'taurex.data.spectrum.array:ArraySpectrum.wavenumberGrid',
         'taurex.data.spectrum.observed:ObservedSpectrum.__init__', 'taurex.data.spectrum.taurex:TaurexSpectrum._load_from_hdf5',
         'taurex.data.spectrum.spectrum:BaseSpectrum.create_binner', 'taurex.binning.fluxbinner:FluxBinner.__init__',
         'taurex.util.util:compute_bin_edges', 'taurex.util.util:wnwidth_to_wlwidth']
STUBS = ['np.loadtxt -> the symbolic row array', 'h5py.File -> nested-dict double holding symbolic instrument arrays']


class _H5(object):
    def __init__(self, d):
        self.d = d

    def __enter__(self):
        return self.d

    def __exit__(self, *a):
        return False


@harness('C17', 'rows',
         quick=[dict(n=2, cols=3, source='array'), dict(n=3, cols=3, source='array'), dict(n=2, cols=4, source='array'),
                dict(n=3, cols=4, source='text'), dict(n=3, cols=4, source='hdf5')],
         thorough=[dict(n=4, cols=3, source='array', _shards=4), dict(n=4, cols=4, source='array', _shards=4), dict(n=3, cols=3, source='text'),
                   dict(n=4, cols=4, source='hdf5', _shards=4), dict(n=2, cols=4, source='hdf5'), dict(n=5, cols=4, source='array', _shards=16)],
         functions=FUNCS, stubs=STUBS, shard_depth=3, covers=['unsorted_input'],
         outside=['Iraclis and light-curve sources', 'row counts beyond those listed'])
def rows(ctx, n, cols, source):
    """Real ArraySpectrum / ObservedSpectrum (loadtxt stub) / TaurexSpectrum (h5py stub) on symbolic rows
    (wavelength, value, error[, width]) in ANY order: wavenumbers strictly ascending and = 10000/wavelength, each
    value/error/width still attached to its wavelength, widths converted at the bin centre (or derived from
    mid-points), bin edges consistent, and the binner created from the observation uses exactly those centres and
    widths index by index."""
    from taurex.data.spectrum.array import ArraySpectrum
    import taurex.data.spectrum.observed as obsm
    import taurex.data.spectrum.taurex as tsm
    lam = ctx.reals('lam', n, gt=0, hint=(0.5, 20))
    for i in range(n):
        for j in range(i + 1, n):
            ctx.assume(ctx.ne(lam[i], lam[j]))
    val = ctx.reals('val', n, hint=(0, 1))
    err = ctx.reals('err', n, gt=0, hint=(0.001, 0.1))
    if cols == 4:
        bw = ctx.reals('bw', n, gt=0, hint=(0.01, 0.4))
        for i in range(n):
            ctx.assume(bw[i] < 2 * lam[i])       # lower bin edge stays positive
    ctx.cover_if('unsorted_input', ctx.lt(lam[0], lam[1]))
    if source == 'hdf5':
        # the file stores wavenumber grid / widths; the loader converts to wavelength rows
        wn_in = 10000 / lam
        wnw_in = 10000 * bw / (lam * lam)
        f = dict(Output=dict(Spectra=dict(instrument_wngrid=wn_in, instrument_spectrum=val, instrument_noise=err,
                                          instrument_wnwidth=wnw_in)))
        import h5py
        with patched(h5py, File=lambda *a, **k: _H5(f)):
            obs = tsm.TaurexSpectrum('/nonexistent.h5')
    else:
        arr = np.empty((n, cols), dtype=object if ctx.sym else float)
        arr[:, 0], arr[:, 1], arr[:, 2] = lam, val, err
        if cols == 4:
            arr[:, 3] = bw
        if source == 'text':
            with patched(np, loadtxt=lambda *a, **k: arr):
                obs = obsm.ObservedSpectrum('/nonexistent.dat')
        else:
            obs = ArraySpectrum(arr)
    wn, sp, er, bwid, edges = obs.wavenumberGrid, obs.spectrum, obs.errorBar, obs.binWidths, obs.binEdges
    ctx.goal('lengths', len(wn) == n and len(sp) == n and len(er) == n and len(bwid) == n)
    for i in range(n - 1):
        ctx.goal('ascending[%d]' % i, ctx.lt(wn[i], wn[i + 1]))
    for i in range(n):
        alts = []
        for r in range(n):
            c = [ctx.eq(wn[i] * lam[r], 10000.0), ctx.eq(sp[i], val[r]), ctx.eq(er[i], err[r])]
            if cols == 4:
                c.append(ctx.eq(bwid[i] * lam[r] * lam[r], 10000.0 * bw[r]))
                c.append(ctx.eq(edges[2 * i] * (lam[r] + bw[r] / 2), 10000.0))
                c.append(ctx.eq(edges[2 * i + 1] * (lam[r] - bw[r] / 2), 10000.0))
            alts.append(ctx.and_(c))
        ctx.goal('attached[%d]' % i, ctx.or_(alts))
    if cols == 4:
        ctx.goal('edge_count', len(edges) == 2 * n)
    else:
        # widths / edges from mid-points of the sorted wavelengths (descending wavelength = ascending wavenumber)
        ls = [10000.0 / wn[i] for i in range(n)]
        e = [ls[0] - (ls[1] - ls[0]) / 2] + [(ls[i] + ls[i + 1]) / 2 for i in range(n - 1)] + [ls[-1] + (ls[-1] - ls[-2]) / 2]
        ctx.goal('edge_count', len(edges) == n + 1)
        # domain: the extrapolated outermost short-wavelength edge stays positive (3*lam_min > next wavelength)
        ctx.assume(ctx.lt(0.0, e[-1]))
        for i in range(n + 1):
            ctx.goal('edge[%d]' % i, ctx.eq(edges[i] * e[i], 10000.0))
        for i in range(n):
            w = e[i] - e[i + 1]          # descending wavelength: positive
            ctx.goal('width_from_midpoints[%d]' % i, ctx.and_(ctx.lt(0.0, w), ctx.eq(bwid[i] * ls[i] * ls[i], 10000.0 * w)))
    b = obs.create_binner()
    for i in range(n):
        ctx.goal('binner_aligned[%d]' % i, ctx.and_(ctx.eq(b._wngrid[i], wn[i]), ctx.eq(b._wngrid_width[i], bwid[i])))
    # a model binned to the observation comes back on the observation's own grid, index by index
    nat = np.array([1.0, 2.0])
    res = b.bindown(np.array([1.0, 2.0]), nat.copy()) if not ctx.sym else None
    if res is not None:
        ctx.goal('bin_model_grid', all(ctx.eq(res[0][i], wn[i]) for i in range(n)))
