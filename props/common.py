"""shared builders: real TauREx objects constructed directly on symbolic (or concrete) state."""
import contextlib
import io
import types

import numpy as np


class _DummyFile(object):
    def __enter__(self):
        return self

    def __exit__(self, *a):
        return False

    def read(self, *a):
        return b''

    def close(self):
        pass


@contextlib.contextmanager
def patched(module, **attrs):
    """temporarily set attributes in a module namespace (environment stubs)"""
    missing = object()
    saved = {k: module.__dict__.get(k, missing) for k in attrs}
    try:
        for k, v in attrs.items():
            setattr(module, k, v)
        yield
    finally:
        for k, v in saved.items():
            if v is missing:
                try:
                    delattr(module, k)
                except AttributeError:
                    pass
            else:
                setattr(module, k, v)


def fake_pickle(payload):
    ns = types.SimpleNamespace()
    ns.load = lambda f, **kw: payload
    return ns


def make_pickle_opacity(spec_dict, mode='linear', filename='/nonexistent/H2O.R1.pickle'):
    """real PickleOpacity.__init__/_load_pickle_file with pickle.load/open stubbed to return spec_dict"""
    import taurex.opacity.pickleopacity as m
    with patched(m, pickle=fake_pickle(spec_dict), open=lambda *a, **k: _DummyFile(),
                 allocate_as_shared=lambda arr, logger=None, **kw: arr):
        return m.PickleOpacity(filename, interpolation_mode=mode)


def make_pickle_ktable(spec_dict, mode='linear', filename='/nonexistent/H2O.R1.pickle'):
    import taurex.opacity.ktables.picklektable as m
    with patched(m, pickle=fake_pickle(spec_dict), open=lambda *a, **k: _DummyFile()):
        return m.PickleKTable(filename, interpolation_mode=mode)


def oarr(lst, sym):
    """1-D array of the given python values: object dtype in sym mode, float otherwise"""
    if sym:
        a = np.empty(len(lst), dtype=object)
        for i, v in enumerate(lst):
            a[i] = v
        return a
    return np.array([float(v) for v in lst], dtype=float)
