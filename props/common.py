"""shared builders: real TauREx objects constructed directly on symbolic (or concrete) state."""
import contextlib
import io
import types

import numpy as np


class _DummyFile(object):
    def __enter__(self):
        return self

    def __exit__(self, *a):
        return False

    def read(self, *a):
        return b''

    def close(self):
        pass


@contextlib.contextmanager
def patched(module, **attrs):
    """temporarily set attributes in a module namespace (environment stubs)"""
    missing = object()
    saved = {k: module.__dict__.get(k, missing) for k in attrs}
    try:
        for k, v in attrs.items():
            setattr(module, k, v)
        yield
    finally:
        for k, v in saved.items():
            if v is missing:
                try:
                    delattr(module, k)
                except AttributeError:
                    pass
            else:
                setattr(module, k, v)


def fake_pickle(payload):
    ns = types.SimpleNamespace()
    ns.load = lambda f, **kw: payload
    return ns


def make_pickle_opacity(spec_dict, mode='linear', filename='/nonexistent/H2O.R1.pickle'):
    """real PickleOpacity.__init__/_load_pickle_file with pickle.load/open stubbed to return spec_dict"""
    import taurex.opacity.pickleopacity as m
    with patched(m, pickle=fake_pickle(spec_dict), open=lambda *a, **k: _DummyFile(),
                 allocate_as_shared=lambda arr, logger=None, **kw: arr):
        return m.PickleOpacity(filename, interpolation_mode=mode)


def make_pickle_ktable(spec_dict, mode='linear', filename='/nonexistent/H2O.R1.pickle'):
    import taurex.opacity.ktables.picklektable as m
    with patched(m, pickle=fake_pickle(spec_dict), open=lambda *a, **k: _DummyFile()):
        return m.PickleKTable(filename, interpolation_mode=mode)


def oarr(lst, sym):
    """1-D array of the given python values: object dtype in sym mode, float otherwise"""
    if sym:
        a = np.empty(len(lst), dtype=object)
        for i, v in enumerate(lst):
            a[i] = v
        return a
    return np.array([float(v) for v in lst], dtype=float)


# ------------------------------------------------------------------------------------------------
# forward models with directly constructed state

class SigmaContribution(object):
    """factory for sigma-type contributions (real Contribution / CIAContribution code paths) whose
    weighted cross-section array is given directly"""
    @staticmethod
    def make(name, sigma, kind='sigma', order=0):
        from taurex.contributions import Contribution
        from taurex.contributions.cia import CIAContribution

        if kind == 'cia':
            class _C(CIAContribution):
                def prepare_each(self, model, wngrid):
                    self._total_cia = 1
                    self._nlayers = model.nLayers
                    self._ngrid = wngrid.shape[0]
                    self.sigma_xsec = self._given
                    yield 'pair', self._given

                def prepare(self, model, wngrid):
                    for _ in self.prepare_each(model, wngrid):
                        pass
            c = _C(cia_pairs=['H2-He'])
        else:
            class _C(Contribution):
                def prepare_each(self, model, wngrid):
                    self._nlayers = model.nLayers
                    self._ngrid = wngrid.shape[0]
                    yield name, self._given

                def prepare(self, model, wngrid):
                    self._nlayers = model.nLayers
                    self._ngrid = wngrid.shape[0]
                    self.sigma_xsec = self._given
            c = _C(name)
        c._name = name
        c._given = sigma
        c._order = order
        return c


def state_model(klass, n, wngrid, Rp, Rs, z, dz, rho, T=None, P=None, Tstar=None, **kw):
    """instance of a real forward-model class whose profile state is set directly (initialize_profiles is a
    no-op, the state accessors read the given arrays); path_integral & co. are the real methods"""
    from taurex.data import Planet
    from taurex.data.stellar import BlackbodyStar
    from taurex.data.profiles.pressure import SimplePressureProfile

    class _State(klass):
        def initialize_profiles(self):
            pass

        @property
        def densityProfile(self):
            return self._rho

        @property
        def nativeWavenumberGrid(self):
            return self._wn

        @property
        def temperatureProfile(self):
            return self._T

        @property
        def pressureProfile(self):
            return self._P

        @property
        def nLayers(self):
            return self._n

    planet = Planet()
    planet._radius = Rp
    star = BlackbodyStar()
    star._radius = Rs
    if Tstar is not None:
        star._temperature = Tstar
    m = _State(planet=planet, star=star, pressure_profile=SimplePressureProfile(n), **kw)
    m._n, m._rho, m._wn, m._T, m._P = n, rho, wngrid, T, P
    m.altitude_profile = z
    m.deltaz = dz
    m.altitude_boundaries = None
    return m
