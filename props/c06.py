"""C06 -- every sampler is handed the Gaussian log-likelihood of the binned model."""
import math

import numpy as np

from symx.harness import harness
from .common import patched
from . import stubs
from .optdoubles import REC, nestle_double, make_model, _install_sampler_doubles
from .c05 import _overlap

FUNCS = ['taurex.optimizer.optimizer:Optimizer.chisq_trans', 'taurex.optimizer.optimizer:Optimizer.update_model',
         'taurex.optimizer.optimizer:Optimizer.compile_params', 'taurex.optimizer.optimizer:compile_params',
         'taurex.optimizer.nestle:NestleOptimizer.compute_fit', 'taurex.optimizer.multinest:MultiNestOptimizer.compute_fit',
         'taurex.optimizer.polychord:PolyChordOptimizer.compute_fit', 'taurex.binning.fluxbinner:FluxBinner.bindown',
         'taurex.binning.binner:Binner.bin_model', 'taurex.core.priors:Uniform.sample', 'taurex.core.priors:Prior.prior']
STUBS = ['nestle.sample / pymultinest.run / pypolychord.run_polychord -> recording doubles that capture the callbacks',
         'forward model -> double built with the real Fittable machinery, native spectrum = sum_k p_k*coef_k + const (symbolic), '
         'InvalidModelException on a symbolic validity condition', 'observation binner -> exact linear binning with arbitrary symbolic weights', 'scipy.stats ppf -> contract stubs (see C08)',
         'ln/log10/exp10: UF']


def _setup(ctx, sampler, nobs, npar):
    import taurex.core.priors as pm
    import taurex.optimizer.nestle as nm
    from taurex.optimizer.nestle import NestleOptimizer
    from taurex.data.spectrum.array import ArraySpectrum
    from taurex.core.priors import Uniform, LogUniform
    native = np.array([900.0, 1000.0, 1100.0, 1200.0])
    nn = len(native)
    coef = [ctx.reals('coef%d' % k, nn, hint=(0, 2)) for k in range(npar)]
    const = ctx.reals('const', nn, hint=(0, 2))
    limit = ctx.real('valid_limit', hint=(2, 100))
    model = make_model(coef, const, limit)
    model.native = native
    lam = np.array([10000.0 / 1250.0, 10000.0 / 1010.0, 10000.0 / 930.0][:nobs])
    wid = np.array([0.8, 1.2, 0.9][:nobs])
    d = ctx.reals('obs', nobs, hint=(0, 5))
    sg = ctx.reals('sigma', nobs, gt=0, hint=(0.1, 1))
    arr = np.empty((nobs, 4), dtype=object if ctx.sym else float)
    arr[:, 0], arr[:, 1], arr[:, 2], arr[:, 3] = lam, d, sg, wid
    obs = ArraySpectrum(arr)
    # the observation's binner: an exact linear binning with ARBITRARY symbolic weights (rows sum to one).  What
    # FluxBinner computes is the subject of C05/C17; here the subject is what the callback does with the binner.
    from taurex.binning import Binner
    W = ctx.array('W', (nobs, nn), ge=0, hint=(0, 1))
    for i in range(nobs):
        ctx.assume(ctx.eq(sum(W[i, 1:], W[i, 0]), 1.0))

    class _LinBinner(Binner):
        def bindown(self, wngrid, spectrum, grid_width=None, error=None):
            out = np.array([sum((W[i, j] * spectrum[j] for j in range(1, nn)), W[i, 0] * spectrum[0]) for i in range(nobs)],
                           dtype=object if ctx.sym else float)
            return obs.wavenumberGrid, out, None, obs.binWidths
    obs.create_binner = lambda: _LinBinner()
    obs._W = W
    envs = [patched(pm, stats=stubs.stats_stub)] if ctx.sym else []
    if sampler == 'nestle':
        opt = NestleOptimizer(observed=obs, model=model)
    elif sampler == 'multinest':
        from taurex.optimizer.multinest import MultiNestOptimizer
        opt = MultiNestOptimizer(multi_nest_path='/nonexistent_symx', observed=obs, model=model)
    else:
        from taurex.optimizer.polychord import PolyChordOptimizer
        opt = PolyChordOptimizer(polychord_path='/nonexistent_symx', observed=obs, model=model)
    return native, coef, const, limit, model, obs, opt, envs, d, sg


def _spec_binned(ctx, obs, native, spectrum):
    W = obs._W
    return [sum((W[i, j] * spectrum[j] for j in range(1, len(native))), W[i, 0] * spectrum[0]) for i in range(W.shape[0])]


@harness('C06', 'loglike',
         quick=[dict(sampler='nestle', nobs=2, npar=2), dict(sampler='multinest', nobs=2, npar=2), dict(sampler='polychord', nobs=2, npar=2),
                dict(sampler='nestle', nobs=3, npar=1), dict(sampler='nestle', nobs=2, npar=2, mismatch=True)],
         thorough=[dict(sampler=s, nobs=2, npar=1, seq=3, _shards=4) for s in ('nestle', 'multinest', 'polychord')] +
                  [dict(sampler='nestle', nobs=3, npar=2, seq=2, _shards=4)] +
                  [dict(sampler='nestle', nobs=3, npar=3, _shards=2), dict(sampler='polychord', nobs=2, npar=2, mismatch=True),
                   dict(sampler='multinest', nobs=3, npar=2, mismatch=True, _shards=2)],
         covers=['valid_then_valid', 'invalid_then_valid', 'valid_then_invalid'], functions=FUNCS, stubs=STUBS, shard_depth=3,
         outside=['what the external samplers do with the callbacks', 'dypolychord', 'real forward models (doubles only)'])
def loglike(ctx, sampler, nobs, npar, seq=2, mismatch=False):
    """Real compute_fit of the sampler wrapper (sampler replaced by a recording double) -> captured log-likelihood and
    prior callbacks; real chisq_trans/update_model/compile_params/priors/ArraySpectrum/FluxBinner.  For a sequence of
    symbolic cube points (valid or invalid): loglike == -sum ln(sigma sqrt(2 pi)) - chi^2/2 of the observation vs the
    model evaluated at exactly prior_k.prior(theta_k) in parameter order and binned to the observation; invalid
    vectors give NaN and no exception; the value never depends on earlier vectors; the prior callback maps the unit
    cube through each prior in the same order."""
    import taurex.optimizer.nestle as nm
    from taurex.core.priors import Uniform, LogUniform
    native, coef, const, limit, model, obs, opt, envs, d, sg = _setup(ctx, sampler, nobs, npar)
    for e in envs:
        e.__enter__()
    try:
        names = ['a', 'b', 'c'][:npar]
        for nme in names:
            opt.enable_fit(nme)
        lo = ctx.real('b_lo', gt=0, hint=(0.1, 1))
        hi = ctx.real('b_hi', gt=0, hint=(2, 10))
        ctx.assume(lo < hi)
        opt.set_boundary('a', [lo, hi])            # linear parameter, default Uniform prior
        if mismatch:
            # prior space differs from the parameter's mode: log-space prior on the linear-mode parameter
            opt.set_prior('a', LogUniform(bounds=[lo, hi]))
        if npar > 1:
            opt.set_prior('b', LogUniform(bounds=[-1.0, 1.0]))   # log parameter, explicit prior in log space
        opt.compile_params()
        REC.clear()
        if sampler == 'nestle':
            with patched(nm, nestle=nestle_double(None)):
                try:
                    opt.compute_fit()
                except Exception:
                    pass        # storing the (absent) result is not the subject
        else:
            try:
                opt.compute_fit()
            except Exception:
                pass
        cb = REC.get(sampler)
        ctx.goal('callbacks_captured', cb is not None and cb['ndim'] == npar)
        if cb is None:
            return
        # ---- prior callback
        u = ctx.reals('u', npar, ge=0, le=1, hint=(0.1, 0.9))
        if sampler == 'nestle':
            cube = cb['prior'](list(u))
        elif sampler == 'multinest':
            cube = list(u)
            ret = cb['prior'](cube, npar, npar)
            ctx.goal('multinest_prior_in_place', ret is None)
        else:
            cube = cb['prior'](list(u))
        exp_cube = [lo + (hi - lo) * u[0]] + ([-1.0 + 2.0 * u[1]] if npar > 1 else []) + \
                   ([2.5 + (7.0 - 2.5) * u[2]] if npar > 2 else [])
        ctx.goal('prior_len', len(cube) == npar)
        for k in range(npar):
            ctx.goal('prior_cube[%d]' % k, ctx.eq(cube[k], exp_cube[k]))
        # ---- likelihood callback on a sequence of vectors
        norm = 0.0
        for i in range(nobs):
            norm = norm - ctx.log(sg[i] * math.sqrt(2 * math.pi))
        pattern = []
        zero_flags = []
        for s in range(seq):
            th = ctx.reals('theta%d' % s, npar, hint=(0.2, 3))
            if npar > 1:     # counterexamples where 10**theta is pinned by a lemma instance replay faithfully
                ctx.hint(ctx.or_(ctx.eq(th[1], 0.0), ctx.eq(th[1], 1.0), ctx.eq(th[1], -1.0)))
            try:
                if sampler == 'nestle':
                    val = cb['loglike'](list(th))
                elif sampler == 'multinest':
                    val = cb['loglike'](list(th), npar, npar)
                else:
                    val = cb['loglike'](list(th))
                    ctx.goal('polychord_tuple[%d]' % s, isinstance(val, tuple) and len(val) == 2 and list(val[1]) == [0.0])
                    val = val[0]
            except Exception as ex:
                ctx.goal('callback_never_raises[%d]:%s' % (s, type(ex).__name__), False)
                return
            p = [ctx.exp10(th[0]) if mismatch else th[0]] + ([ctx.exp10(th[1])] if npar > 1 else []) + ([th[2]] if npar > 2 else [])
            invalid = bool(ctx.lt(limit, p[0]))
            pattern.append('invalid' if invalid else 'valid')
            isnan = isinstance(val, (float, np.floating)) and val != val
            if invalid:
                ctx.goal('invalid_not_finite[%d]' % s, isnan)
                continue
            spectrum = [const[j] + sum(p[k] * coef[k][j] for k in range(npar)) for j in range(len(native))]
            binned = _spec_binned(ctx, obs, native, spectrum)
            # observation rows are stored in ascending wavenumber; d/sg were given in that order already?
            od, osg = obs.spectrum, obs.errorBar
            chi = 0.0
            for i in range(nobs):
                r = (od[i] - binned[i]) / osg[i]
                chi = chi + r * r
            zero_flags.append(ctx.eq(chi, 0.0))
            ctx.region('chi2_zero', ctx.or_(zero_flags))
            if isnan:
                ctx.goal('loglike[%d]' % s, False)
            else:
                ctx.goal('loglike[%d]' % s, ctx.eq(val, norm - 0.5 * chi, scale=None if ctx.sym else 1.0))
            # the model was evaluated at exactly the prior-transformed values, other parameters untouched
            last = model.calls[-1][0]
            for k in range(npar):
                ctx.goal('param_written[%d,%d]' % (s, k), ctx.eq(last[k], p[k]))
        if len(pattern) >= 2:
            ctx.cover('%s_then_%s' % (pattern[0], pattern[1]))
    finally:
        for e in reversed(envs):
            e.__exit__(None, None, None)


@harness('C06', 'invalid_atmosphere',
         quick=[dict(sampler='nestle', n=2), dict(sampler='polychord', n=2)],
         thorough=[dict(sampler=s, n=k) for s in ('nestle', 'multinest', 'polychord') for k in (2, 3)],
         covers=['valid', 'invalid_in_one_layer_only'], functions=FUNCS + [
             'taurex.data.profiles.chemistry.taurexchemistry:TaurexChemistry.initialize_chemistry'],
         stubs=STUBS + ['forward model double whose model() initialises a REAL TaurexChemistry (fill H2/He + an ArrayGas trace whose '
                        'per-layer abundance is the fitted parameters) before returning a constant spectrum'],
         shard_depth=3)
def invalid_atmosphere(ctx, sampler, n):
    """The callback built by the real compute_fit, driving a model whose validity is decided by the REAL
    TaurexChemistry: a parameter vector whose trace abundances exceed one in ANY layer (also in one layer only) gives a
    non-finite log-likelihood and no exception; a valid vector gives the Gaussian value."""
    import taurex.core.priors as pm
    import taurex.optimizer.nestle as nm
    from taurex.model import ForwardModel
    from taurex.data.profiles.chemistry import TaurexChemistry
    from taurex.data.profiles.chemistry.gas.arraygas import ArrayGas
    from taurex.data.spectrum.array import ArraySpectrum
    from taurex.binning import Binner
    from taurex.optimizer.nestle import NestleOptimizer
    from .c10 import _chem_env
    native = np.array([900.0, 1000.0])

    class _ChemModel(ForwardModel):
        def __init__(self):
            super().__init__('ChemModel')
            self.mix = [0.1] * n
            with _chem_env(['H2O']):
                self.chem = TaurexChemistry(fill_gases=['H2', 'He'], ratio=0.17)
                self.gas = ArrayGas('H2O', mix_ratio_array=list(self.mix))
                self.chem.addGas(self.gas)
            for k in range(n):
                def fget(s, k=k):
                    return s.mix[k]

                def fset(s, v, k=k):
                    s.mix[k] = v
                self.add_fittable_param('mix%d' % k, 'mix%d' % k, fget, fset, 'linear', True, [0.0, 2.0])

        def build(self):
            pass

        def initialize_profiles(self):
            pass

        def model(self, wngrid=None, cutoff_grid=True):
            self.gas._mix_ratio_array = np.array(list(self.mix), dtype=object if ctx.sym else float)
            self.chem.initialize_chemistry(n, np.ones(n) * 1000.0, np.logspace(5, 0, n), None)
            return native, np.ones(2) * 2.0, np.zeros((1, 2)), None
    model = _ChemModel()
    d = ctx.reals('obs', 1, hint=(0, 5))
    sg = ctx.reals('sigma', 1, gt=0, hint=(0.1, 1))
    arr = np.empty((1, 4), dtype=object if ctx.sym else float)
    arr[0, 0], arr[0, 1], arr[0, 2], arr[0, 3] = 10000.0 / 950.0, d[0], sg[0], 1.0
    obs = ArraySpectrum(arr)

    class _MeanBinner(Binner):
        def bindown(self, wngrid, spectrum, grid_width=None, error=None):
            return obs.wavenumberGrid, np.array([(spectrum[0] + spectrum[1]) / 2.0]), None, obs.binWidths
    obs.create_binner = lambda: _MeanBinner()
    envs = [patched(pm, stats=stubs.stats_stub)] if ctx.sym else []
    for e in envs:
        e.__enter__()
    try:
        if sampler == 'nestle':
            opt = NestleOptimizer(observed=obs, model=model)
        elif sampler == 'multinest':
            from taurex.optimizer.multinest import MultiNestOptimizer
            opt = MultiNestOptimizer(multi_nest_path='/nonexistent_symx', observed=obs, model=model)
        else:
            from taurex.optimizer.polychord import PolyChordOptimizer
            opt = PolyChordOptimizer(polychord_path='/nonexistent_symx', observed=obs, model=model)
        opt.compile_params()
        REC.clear()
        try:
            if sampler == 'nestle':
                with patched(nm, nestle=nestle_double(None)):
                    opt.compute_fit()
            else:
                opt.compute_fit()
        except Exception:
            pass
        cb = REC.get(sampler)
        ctx.goal('callbacks_captured', cb is not None and cb['ndim'] == n)
        if cb is None:
            return
        th = ctx.reals('theta', n, ge=0, hint=(0, 1.5))
        try:
            if sampler == 'multinest':
                val = cb['loglike'](list(th), n, n)
            else:
                val = cb['loglike'](list(th))
            if sampler == 'polychord':
                val = val[0]
        except Exception as ex:
            ctx.goal('callback_never_raises:%s' % type(ex).__name__, False)
            return
    finally:
        for e in reversed(envs):
            e.__exit__(None, None, None)
    exceeds = ctx.or_([ctx.lt(1.0, th[k]) for k in range(n)])
    isnan = isinstance(val, (float, np.floating)) and val != val
    ctx.cover_if('invalid_in_one_layer_only', ctx.and_(ctx.lt(1.0, th[n - 1]), ctx.and_([ctx.le(th[k], 1.0) for k in range(n - 1)])))
    if isnan:
        ctx.region('chi2_zero', ctx.eq(d[0], 2.0))
        ctx.goal('loglike[nan_only_if_invalid]', exceeds)       # (chi^2 == 0 -> NaN is the recorded finding)
    else:
        ctx.cover('valid')
        ctx.goal('finite_only_if_valid', ctx.not_(exceeds))
        r = (d[0] - 2.0) / sg[0]
        ctx.goal('loglike_value', ctx.eq(val, -ctx.log(sg[0] * math.sqrt(2 * math.pi)) - 0.5 * r * r, scale=None if ctx.sym else 1.0))
