"""C05 -- spectral binning is an overlap-weighted mean of the native spectrum."""
import numpy as np

from symx.harness import harness

FUNCS = ['taurex.binning.fluxbinner:FluxBinner.__init__', 'taurex.binning.fluxbinner:FluxBinner.bindown',
         'taurex.util.util:compute_bin_edges', 'taurex.binning.simplebinner:SimpleBinner.bindown',
         'taurex.util.util:bindown', 'taurex.binning.nativebinner:NativeBinner.bindown',
         'taurex.binning.binner:Binner.bin_model']


def _overlap(ctx, a, b, lo, hi):
    """max(0, min(hi,b) - max(lo,a)) written independently of the code (conditions the path already determines are
    resolved, the others stay as if-then-else inside the formula)"""
    top = ctx.ite_resolved(ctx.le_strict(hi, b), hi, b)
    bot = ctx.ite_resolved(ctx.le_strict(lo, a), a, lo)
    d = top - bot
    return ctx.ite_resolved(ctx.le_strict(d, 0), 0.0, d)


@harness('C05', 'fluxbinner',
         quick=[dict(nn=2, nt=1, rows=0, err=True, widths=True),
                dict(nn=3, nt=1, rows=0, err=True, widths=True, sorted_native=True, _shards=4),
                dict(nn=3, nt=1, rows=0, err=False, widths=True, _shards=6),
                dict(nn=2, nt=2, rows=0, err=False, widths=True, sorted_native=True, _shards=8),
                dict(nn=2, nt=1, rows=2, err=False, widths=True, sorted_native=True),
                dict(nn=3, nt=1, rows=0, err=False, widths=False, sorted_native=True)],
         thorough=[dict(nn=2, nt=1, rows=0, err=True, widths=True),
                   dict(nn=3, nt=1, rows=0, err=True, widths=True, _shards=8),
                   dict(nn=4, nt=1, rows=0, err=False, widths=True, sorted_native=True, _shards=16),
                   dict(nn=3, nt=2, rows=0, err=False, widths=True, sorted_native=True, _shards=16),
                   dict(nn=2, nt=2, rows=0, err=True, widths=True),
                   dict(nn=3, nt=1, rows=2, err=False, widths=True, sorted_native=True, _shards=4),
                   dict(nn=4, nt=1, rows=0, err=False, widths=False, sorted_native=True, _shards=4),
                   dict(nn=3, nt=2, rows=0, err=False, widths=False, sorted_native=True, _shards=8)],
         covers=['overlap', 'no_overlap', 'partial', 'multi_native'],
         functions=FUNCS, max_paths=60000, shard_depth=8,
         stubs=['np.zeros -> object array (shim)', 'sqrt: UF with sqrt(x)>=0, sqrt(x)^2=x for x>=0'],
         outside=['overlapping native bins', 'more native/target bins than listed', '2-D error arrays'])
def fluxbinner(ctx, nn, nt, rows=0, err=False, widths=True, sorted_native=False):
    """Real FluxBinner.__init__ + bindown on symbolic native centres/widths/values (any order unless
    sorted_native), symbolic target centres/widths (any position/order). Asserts per target bin with
    positive total overlap O: out*O == sum_i ov_i*f_i; err^2*O^2 == sum ov_i^2 e_i^2; the returned
    grid is the sorted target grid with widths attached; corollaries min<=out<=max."""
    from taurex.binning.fluxbinner import FluxBinner
    c = ctx.reals('c', nn)
    if widths:
        w = ctx.reals('w', nn, gt=0)
        lo = [c[i] - w[i] / 2 for i in range(nn)]
        hi = [c[i] + w[i] / 2 for i in range(nn)]
        # the property's domain: non-overlapping native bins (any order of rows)
        for i in range(nn):
            for j in range(i + 1, nn):
                if sorted_native:
                    ctx.assume(hi[i] <= lo[j])
                else:
                    ctx.assume(ctx.or_(hi[i] <= lo[j], hi[j] <= lo[i]))
    else:
        w = None
        for i in range(nn - 1):
            ctx.assume(c[i] < c[i + 1])
        # widths derived from mid-points give non-overlapping bins only on a uniform grid
        # (otherwise centre +- width/2 of neighbours overlap: outside the property's domain)
        for i in range(nn - 2):
            ctx.assume(ctx.eq(c[i + 1] - c[i], c[i + 2] - c[i + 1]) if ctx.sym else
                       abs((c[i + 1] - c[i]) - (c[i + 2] - c[i + 1])) <= 1e-12 * abs(c[i + 2]))
    tc = ctx.reals('tc', nt)
    tw = ctx.reals('tw', nt, gt=0)
    for i in range(nt):
        for j in range(i + 1, nt):
            ctx.assume(ctx.ne(tc[i], tc[j]))
    if rows:
        f = ctx.array('f', (rows, nn))
    else:
        f = ctx.reals('f', nn)
    e = ctx.reals('e', nn, ge=0) if err else None

    b = FluxBinner(tc.copy(), tw.copy())
    out_wn, out, out_err, out_w = b.bindown(c.copy(), f.copy(), grid_width=None if w is None else w.copy(),
                                            error=None if e is None else e.copy())

    if w is None:
        # widths derived from mid-points (compute_bin_edges), written independently
        edges = [c[0] - (c[1] - c[0]) / 2] + [(c[i] + c[i + 1]) / 2 for i in range(nn - 1)] + \
                [c[-1] + (c[-1] - c[-2]) / 2]
        w = [edges[i + 1] - edges[i] for i in range(nn)]
        lo = [c[i] - w[i] / 2 for i in range(nn)]
        hi = [c[i] + w[i] / 2 for i in range(nn)]

    ctx.goal('out_len', len(out_wn) == nt and np.shape(out)[-1] == nt and len(out_w) == nt)
    for idx in range(nt):
        # returned grid: sorted, and (centre,width) is one of the target bins
        if idx + 1 < nt:
            ctx.goal('sorted[%d]' % idx, ctx.lt(out_wn[idx], out_wn[idx + 1]))
        ctx.goal('attached[%d]' % idx, ctx.or_([ctx.and_(ctx.eq(out_wn[idx], tc[k]), ctx.eq(out_w[idx], tw[k]))
                                                for k in range(nt)]))
        tlo = out_wn[idx] - out_w[idx] / 2
        thi = out_wn[idx] + out_w[idx] / 2
        ov = [_overlap(ctx, lo[i], hi[i], tlo, thi) for i in range(nn)]
        O = sum(ov[1:], ov[0])
        has = ctx.lt(0, O)
        ctx.cover_if('overlap', has)
        ctx.cover_if('no_overlap', ctx.not_(has))
        ctx.cover_if('multi_native', ctx.and_(ctx.lt(0, ov[0]), ctx.lt(0, ov[1])))
        ctx.cover_if('partial', ctx.and_(ctx.lt(0, ov[0]), ctx.lt(ov[0], w[0])))
        rws = range(rows) if rows else [None]
        for r in rws:
            fr = f if r is None else f[r]
            o = out[idx] if r is None else out[r, idx]
            tag = '%d' % idx if r is None else '%d,%d' % (r, idx)
            tot = sum((ov[i] * fr[i] for i in range(1, nn)), ov[0] * fr[0])
            ctx.goal('mean[%s]' % tag, ctx.implies(has, ctx.eq(o * O, tot, scale=1e-3 if not ctx.sym else None)))
            # corollaries: between smallest and largest overlapping native values
            for i in range(nn):
                lower_ok = ctx.or_([ctx.and_(ctx.lt(0, ov[k]), ctx.le(fr[k], o)) for k in range(nn)])
                upper_ok = ctx.or_([ctx.and_(ctx.lt(0, ov[k]), ctx.le(o, fr[k])) for k in range(nn)])
            ctx.goal('between[%s]' % tag, ctx.implies(has, ctx.and_(lower_ok, upper_ok)))
        if e is not None:
            tote = sum((ov[i] * ov[i] * e[i] * e[i] for i in range(1, nn)), ov[0] * ov[0] * e[0] * e[0])
            oe = out_err[idx]
            sq, is_root = ctx.squared(oe)
            ctx.goal('err[%d]' % idx, ctx.implies(has, ctx.and_(is_root if ctx.sym else ctx.le(0, oe),
                                                                ctx.eq(sq * O * O, tote))))


@harness('C05', 'fluxbinner_linear',
         quick=[dict(nn=2, nt=1), dict(nn=3, nt=1, _shards=4)],
         thorough=[dict(nn=3, nt=1, _shards=4), dict(nn=4, nt=1, _shards=16)],
         functions=FUNCS, shard_depth=8,
         outside=['overlapping native bins'])
def fluxbinner_linear(ctx, nn, nt):
    """Two runs of the real bindown on the same grids with spectra f, g and a third with a*f+g:
    bin(a f + g) == a bin(f) + bin(g) (linearity), and a constant spectrum stays constant."""
    from taurex.binning.fluxbinner import FluxBinner
    c = ctx.reals('c', nn)
    w = ctx.reals('w', nn, gt=0)
    for i in range(nn - 1):
        ctx.assume(c[i] + w[i] / 2 <= c[i + 1] - w[i + 1] / 2)
    tc = ctx.reals('tc', nt)
    tw = ctx.reals('tw', nt, gt=0)
    f = ctx.reals('f', nn)
    g = ctx.reals('g', nn)
    a = ctx.real('a')
    k = ctx.real('k')
    b = FluxBinner(tc.copy(), tw.copy())
    _, of, _, _ = b.bindown(c.copy(), f.copy(), grid_width=w.copy())
    _, og, _, _ = b.bindown(c.copy(), g.copy(), grid_width=w.copy())
    _, oc, _, _ = b.bindown(c.copy(), a * f + g, grid_width=w.copy())
    _, ok, _, _ = b.bindown(c.copy(), f * 0 + k, grid_width=w.copy())
    lo = [c[i] - w[i] / 2 for i in range(nn)]
    hi = [c[i] + w[i] / 2 for i in range(nn)]
    for idx in range(nt):
        tlo, thi = tc[idx] - tw[idx] / 2, tc[idx] + tw[idx] / 2
        ov = [_overlap(ctx, lo[i], hi[i], tlo, thi) for i in range(nn)]
        O = sum(ov[1:], ov[0])
        has = ctx.lt(0, O)
        ctx.goal('linear[%d]' % idx, ctx.implies(has, ctx.eq(oc[idx], a * of[idx] + og[idx], scale=1e-3 if not ctx.sym else None)))
        ctx.goal('constant[%d]' % idx, ctx.implies(has, ctx.eq(ok[idx], k)))


@harness('C05', 'simplebinner',
         quick=[dict(nn=3, nt=2), dict(nn=4, nt=2, _shards=4)],
         thorough=[dict(nn=4, nt=2, _shards=4), dict(nn=5, nt=2, _shards=8), dict(nn=4, nt=3, _shards=8)],
         functions=FUNCS, shard_depth=6, covers=['all_bins_nonempty'],
         stubs=['np.histogram -> membership by comparisons ([e_i,e_i+1), last closed)',
                'np.digitize -> count of edges <= x'],
         outside=['native point exactly on a bin edge', 'empty bins (the code divides 0/0)'])
def simplebinner(ctx, nn, nt):
    """Real SimpleBinner.bindown -> util.bindown (histogram model): each output is the plain mean of
    the native points lying strictly between consecutive mid-points of the (sorted) target grid."""
    from taurex.binning.simplebinner import SimpleBinner
    c = ctx.reals('c', nn)          # native points in any order (histogramming is order-free)
    f = ctx.reals('f', nn)
    tc = ctx.increasing('tc', nt)   # the histogram binner requires an increasing target grid
    b = SimpleBinner(tc.copy())
    try:
        out_wn, out, _, out_w = b.bindown(c.copy(), f.copy())
    except Exception as ex:
        ctx.goal('no_exception:%s' % type(ex).__name__, False)
        return
    # out_wn must be sorted and a permutation of tc
    for idx in range(nt - 1):
        ctx.goal('sorted[%d]' % idx, ctx.lt(out_wn[idx], out_wn[idx + 1]))
    for idx in range(nt):
        ctx.goal('perm[%d]' % idx, ctx.or_([ctx.eq(out_wn[idx], tc[k]) for k in range(nt)]))
    s = out_wn
    edges = [s[0] - (s[1] - s[0]) / 2] + [(s[i] + s[i + 1]) / 2 for i in range(nt - 1)] + \
            [s[-1] + (s[-1] - s[-2]) / 2]
    # preconditions of the clause: no native point on an edge; every bin non-empty
    for x in c:
        for ed in edges:
            ctx.assume(ctx.ne(x, ed))
    allnonempty = True
    for idx in range(nt):
        inside = [bool(ctx.and_(ctx.lt(edges[idx], c[i]), ctx.lt(c[i], edges[idx + 1]))) for i in range(nn)]
        n_in = sum(inside)
        if n_in == 0:
            allnonempty = False
            continue
        tot = sum(f[i] for i in range(nn) if inside[i])
        ctx.goal('mean[%d]' % idx, ctx.eq(out[idx] * n_in, tot, scale=1e-3 if not ctx.sym else None))
    if allnonempty:
        ctx.cover('all_bins_nonempty')


@harness('C05', 'nativebinner', quick=[dict(nn=3)], functions=FUNCS)
def nativebinner(ctx, nn):
    """NativeBinner.bindown returns its four arguments unchanged (object identity)."""
    from taurex.binning.nativebinner import NativeBinner
    c = ctx.reals('c', nn)
    f = ctx.reals('f', nn)
    w = ctx.reals('w', nn)
    e = ctx.reals('e', nn)
    r = NativeBinner().bindown(c, f, grid_width=w, error=e)
    ctx.goal('identity', r[0] is c and r[1] is f and r[2] is e and r[3] is w)
    for i in range(nn):
        ctx.goal('val[%d]' % i, ctx.eq(r[1][i], f[i]))
