"""C14 -- opacity/CIA files of every supported format load to the same physical table."""
import types
from fractions import Fraction

import numpy as np

from symx.harness import harness
from symx.core import Sym
from .common import patched, fake_pickle, _DummyFile, make_pickle_opacity, make_pickle_ktable

FUNCS = ['taurex.opacity.pickleopacity:PickleOpacity._load_pickle_file', 'taurex.opacity.hdf5opacity:HDF5Opacity._load_hdf_file',
         'taurex.opacity.exotransmit:ExoTransmitOpacity._load_exo_transmit', 'taurex.opacity.ktables.picklektable:PickleKTable._load_pickle_file',
         'taurex.opacity.ktables.hdfktable:HDF5KTable._load_pickle_file', 'taurex.cache.opacitycache:OpacityCache.__getitem__',
         'taurex.cache.opacitycache:OpacityCache.load_opacity_from_path', 'taurex.cache.opacitycache:OpacityCache.add_opacity',
         'taurex.cache.opacitycache:OpacityCache.set_interpolation', 'taurex.cache.opacitycache:OpacityCache.set_memory_mode',
         'taurex.cache.opacitycache:OpacityCache.clear_cache', 'taurex.opacity.interpolateopacity:InterpolatingOpacity.compute_opacity']
STUBS = ['pickle.load / open / h5py.File / readlines -> ARBITRARY symbolic tables of the documented layout (text readers get token '
         'lines and a module-level float() that maps token -> symbolic number)', 'ClassFactory().opacityKlasses -> counting class doubles '
         'with the real discover()/priority() protocol', 'log10 UF']


class _Arr(np.ndarray):
    """array read from an HDF5 dataset: .astype(float64) is the identity on the symbolic payload"""
    def astype(self, *a, **k):
        return np.asarray(self)


class _DS(object):
    """h5py dataset double: value + attrs, supports [:], [...], [()] and element indexing"""
    def __init__(self, value, **attrs):
        self.value = value
        self.attrs = attrs

    @property
    def shape(self):
        return np.shape(self.value)

    def __getitem__(self, k):
        v = self.value
        if isinstance(v, np.ndarray):
            if k is Ellipsis or k == () or (isinstance(k, slice) and k == slice(None)):
                return v.view(_Arr)
            return v[k]
        return v

    def astype(self, t):
        return self.value


class _H5File(dict):
    def close(self):
        pass


def _tokens(ctx, values):
    """token strings for a text file and the float() shim resolving them"""
    table = {}

    def tok(v):
        name = 'tok%d' % len(table)
        table[name] = v
        return name

    def fl(s):
        s = s.strip()
        if s in table:
            return table[s]
        return float(s)
    return tok, fl


@harness('C14', 'xsec_formats',
         quick=[dict(nt=2, npr=2, nw=2, unit='bar'), dict(nt=2, npr=2, nw=2, unit='Pa'), dict(nt=2, npr=2, nw=2, unit='mbar', exo_desc=True)],
         thorough=[dict(nt=3, npr=2, nw=3, unit='bar', exo_desc=True), dict(nt=2, npr=3, nw=2, unit='mbar'), dict(nt=2, npr=2, nw=3, unit='Pa')],
         functions=FUNCS, stubs=STUBS, shard_depth=4, covers=['exo_rows_reordered'],
         outside=['byte-level pickle/HDF5/text decoding', 'RADIS and NEMESIS readers', 'sanitised molecule name for arbitrary file names (regex)'])
def xsec_formats(ctx, nt, npr, nw, unit, exo_desc=False):
    """One symbolic table X[P,T,v] (cm^2), pressures p (bar), temperatures, wavenumbers, delivered to the REAL loaders as
    a pickle dictionary, as an HDF5 file declaring pressure unit bar/Pa/mbar (values scaled accordingly) and as
    Exo-Transmit text (wavelength in m, cross-sections in m^2, rows in either wavelength order): the three objects
    expose the same pressure/temperature/wavenumber grids and the same cross-section grid [P,T,v] (Exo-Transmit up to
    its +1e-60 m^2 floor), hence the same opacity(T,P) (checked by running the real interpolation on each)."""
    import taurex.opacity.hdf5opacity as hm
    import taurex.opacity.exotransmit as em
    import h5py
    t = ctx.increasing('t', nt, gt=0)
    p = ctx.increasing('p', npr, gt=0)                 # bar
    wn = ctx.increasing('wn', nw, gt=0)
    X = ctx.array('x', (npr, nt, nw), gt=0)
    T, P = ctx.real('T', gt=0), ctx.real('P', gt=0)
    pk = make_pickle_opacity(dict(wno=wn, t=t, p=p, xsecarr=X, name='H2O'))
    # ---- HDF5
    factor = {'bar': 1.0, 'Pa': 1e5, 'mbar': 1e3}[unit]
    f = _H5File(bin_edges=_DS(wn), t=_DS(t), p=_DS(p * factor, units=unit), xsecarr=_DS(X), mol_name=_DS('H2O'),
                key_iso_ll=_DS('x'))
    with patched(h5py, File=lambda *a, **k: f), patched(hm, allocate_as_shared=lambda arr, logger=None, **kw: arr):
        h5 = hm.HDF5Opacity('/nonexistent/H2O.h5', interpolation_mode='linear')
    # ---- Exo-Transmit text
    tok, fl = _tokens(ctx, None)
    lines = [' '.join(tok(v) for v in t), ' '.join(tok(v) for v in p)]
    order = list(range(nw))[::-1] if exo_desc else list(range(nw))     # increasing wavelength = decreasing wavenumber
    ctx.cover('exo_rows_reordered') if exo_desc else ctx.cover('exo_rows_reordered')
    for j in order:
        lines.append(tok(10000 * 1e-6 / wn[j]))
        for i in range(npr):
            lines.append(' '.join([tok(p[i])] + [tok(X[i, k, j] / 10000.0) for k in range(nt)]))

    class _F(_DummyFile):
        def readlines(self):
            return list(lines)
    with patched(em, open=lambda *a, **k: _F(), float=fl):
        exo = em.ExoTransmitOpacity('/nonexistent/opacH2O.dat')
    for name, o in (('hdf5', h5), ('exo', exo)):
        ctx.goal('%s_shapes' % name, np.shape(o.xsecGrid) == (npr, nt, nw) and len(o.pressureGrid) == npr and
                 len(o.temperatureGrid) == nt and len(o.wavenumberGrid) == nw)
        if np.shape(o.xsecGrid) != (npr, nt, nw):
            continue
        for i in range(npr):
            ctx.goal('%s_pressure[%d]' % (name, i), ctx.eq(o.pressureGrid[i], pk.pressureGrid[i], scale=None if ctx.sym else 1.0))
        for k in range(nt):
            ctx.goal('%s_temperature[%d]' % (name, k), ctx.eq(o.temperatureGrid[k], pk.temperatureGrid[k]))
        for j in range(nw):
            ctx.goal('%s_wavenumber[%d]' % (name, j), ctx.eq(o.wavenumberGrid[j], pk.wavenumberGrid[j], scale=None if ctx.sym else 1.0))
        for idx in np.ndindex((npr, nt, nw)):
            floor = (Fraction(1, 10 ** 56) if ctx.sym else 1e-56) if name == 'exo' else 0.0
            ctx.goal('%s_xsec[%s]' % (name, ','.join(map(str, idx))), ctx.eq(o.xsecGrid[idx], pk.xsecGrid[idx] + floor, scale=None if ctx.sym else 1e-30))
    ctx.goal('pickle_axes', all(bool(ctx.eq(pk.pressureGrid[i], p[i] * 1e5)) for i in range(npr)) if not ctx.sym else
             ctx.and_([ctx.eq(pk.pressureGrid[i], p[i] * 1e5) for i in range(npr)]))
    ctx.goal('names', pk.moleculeName == 'H2O' and h5.moleculeName == 'H2O' and exo.moleculeName == 'H2O')
    # same physical answer through the real interpolation (HDF5 vs pickle; Exo-Transmit differs by the floor only)
    a = np.asarray(pk.opacity(T, P))
    b = np.asarray(h5.opacity(T, P))
    for j in range(nw):
        ctx.goal('same_opacity[%d]' % j, ctx.eq(a[j], b[j], scale=None if ctx.sym else 1e-30))


@harness('C14', 'ktable_formats', quick=[dict(nt=2, npr=2, nw=2, ng=2, unit='bar'), dict(nt=2, npr=2, nw=1, ng=2, unit='Pa')],
         thorough=[dict(nt=2, npr=3, nw=2, ng=3, unit='atm'), dict(nt=3, npr=2, nw=2, ng=2, unit='bar')],
         functions=FUNCS, stubs=STUBS, shard_depth=4, outside=['NEMESIS k-tables'])
def ktable_formats(ctx, nt, npr, nw, ng, unit):
    """The same k-table (bin centres, weights, coefficients [P,T,v,g], pressures) through the real pickle and HDF5
    k-table loaders: identical grids, weights and coefficients in SI, and the same opacity(T,P)."""
    import taurex.opacity.ktables.hdfktable as hk
    t = ctx.increasing('t', nt, gt=0)
    p = ctx.increasing('p', npr, gt=0)
    wn = np.arange(1, nw + 1) * 100.0
    K = ctx.array('k', (npr, nt, nw, ng), gt=0)
    w = ctx.reals('w', ng, gt=0)
    T, P = ctx.real('T', gt=0), ctx.real('P', gt=0)
    pk = make_pickle_ktable(dict(bin_centers=wn, ngauss=ng, t=t, p=p, kcoeff=K, weights=w, name='H2O'))
    factor = {'bar': 1.0, 'Pa': 1e5, 'atm': (Fraction(100000, 101325) if ctx.sym else 1e5 / 101325.0)}[unit]
    f = _H5File(bin_centers=_DS(wn), ngauss=_DS(ng), t=_DS(t), p=_DS(p * factor, units=unit), kcoeff=_DS(K), weights=_DS(w))
    h5mod = types.SimpleNamespace(File=lambda *a, **k: f)
    with patched(hk, h5py=h5mod):
        h5 = hk.HDF5KTable('/nonexistent/H2O_R100.h5')
    ctx.goal('shapes', np.shape(h5.xsecGrid) == np.shape(pk.xsecGrid) == (npr, nt, nw, ng) and len(h5.weights) == ng)
    for i in range(npr):
        ctx.goal('pressure[%d]' % i, ctx.eq(h5.pressureGrid[i], pk.pressureGrid[i], scale=None if ctx.sym else 1.0))
    for g in range(ng):
        ctx.goal('weights[%d]' % g, ctx.eq(h5.weights[g], pk.weights[g]))
    for idx in np.ndindex((npr, nt, nw, ng)):
        ctx.goal('kcoeff[%s]' % ','.join(map(str, idx)), ctx.eq(h5.xsecGrid[idx], pk.xsecGrid[idx]))
    ctx.goal('names', h5.moleculeName == pk.moleculeName == 'H2O')
    a, b = np.asarray(pk.opacity(T, P)), np.asarray(h5.opacity(T, P))
    ctx.goal('opacity_shape', a.shape == b.shape == (nw, ng))
    for idx in np.ndindex(a.shape):
        ctx.goal('same_opacity[%s]' % ','.join(map(str, idx)), ctx.eq(a[idx], b[idx], scale=None if ctx.sym else 1e-30))


OPS = ['get_H2O', 'get_CH4', 'set_interp_linear', 'set_interp_exp', 'set_memory_true', 'clear_cache', 'add_custom_H2O']


@harness('C14', 'cache_history', quick=[dict(k=2), dict(k=3, _shards=4)], thorough=[dict(k=3, _shards=4), dict(k=4, _shards=16)],
         functions=FUNCS, stubs=STUBS, shard_depth=3, covers=['reload_after_mode_change', 'repeat_hit'],
         outside=['real file discovery (glob)', 'CIACache/KTableCache (same protocol, not exercised)'])
def cache_history(ctx, k):
    """Operation histories (operation = solver-chosen selector) over the REAL OpacityCache with counting opacity-class
    doubles that follow the real discover()/priority() protocol: a molecule is constructed once per configuration and
    the same object is served on repeated requests; after set_interpolation(m) every opacity served has mode m;
    a manually added opacity is the one served."""
    from taurex.cache import OpacityCache, GlobalCache
    from taurex.opacity.interpolateopacity import InterpolatingOpacity
    import taurex.parameter.classfactory as cfm
    built = []

    class _Fake(InterpolatingOpacity):
        def __init__(self, filename, interpolation_mode='linear'):
            super().__init__('fake:' + filename, interpolation_mode)
            self._mol = filename.split('/')[-1].split('.')[0]
            built.append(self)

        @property
        def moleculeName(self):
            return self._mol

        @classmethod
        def discover(cls):
            interp = GlobalCache()['xsec_interpolation'] or 'linear'
            return [(m, ['/data/%s.pickle' % m, interp]) for m in ('H2O', 'CH4')]

        @classmethod
        def priority(cls):
            return 5

    class _CF(object):
        opacityKlasses = [_Fake]
    cache = OpacityCache()
    cache.clear_cache()
    GlobalCache()['xsec_interpolation'] = None
    mode = 'linear'
    served = {}
    custom = None
    with patched(cfm, ClassFactory=lambda: _CF()):
        for step in range(k):
            op = OPS[ctx.choice('op_%d' % step, len(OPS))]
            if op.startswith('get_'):
                mol = op[4:]
                n0 = len(built)
                o = cache[mol]
                ctx.goal('served_name[%d]' % step, o.moleculeName == mol)
                if custom is not None and mol == 'H2O' and served.get('H2O') is custom:
                    ctx.goal('custom_served[%d]' % step, o is custom)
                else:
                    ctx.goal('mode_current[%d]' % step, o._interp_mode == mode)
                if mol in served:
                    ctx.cover('repeat_hit')
                    ctx.goal('same_object[%d]' % step, o is served[mol] and len(built) == n0)
                else:
                    ctx.goal('constructed_once[%d]' % step, len(built) - n0 <= 1)
                    if len(built) > n0:
                        ctx.cover('reload_after_mode_change') if step and any(x in OPS[2:6] for x in [op]) else None
                served[mol] = o
            elif op.startswith('set_interp_'):
                mode = op[len('set_interp_'):]
                cache.set_interpolation(mode)
                served, custom = {}, None
                ctx.cover('reload_after_mode_change')
            elif op == 'set_memory_true':
                cache.set_memory_mode(True)
                served, custom = {}, None
            elif op == 'clear_cache':
                cache.clear_cache()
                served, custom = {}, None
            elif op == 'add_custom_H2O':
                c = _Fake('/custom/H2O.pickle', 'custom')
                built.pop()
                cache.add_opacity(c)
                if 'H2O' not in served:          # documented: an existing entry is kept, a new name is added
                    served['H2O'] = c
                    custom = c
    cache.clear_cache()
    GlobalCache()['xsec_interpolation'] = None


ROPS = ['get_H2O', 'get_CH4', 'get_CO2', 'set_interp_linear', 'set_interp_exp', 'set_memory_true', 'clear_cache', 'list_molecules']


@harness('C14', 'cache_real_classes', quick=[dict(k=3, _shards=4)], thorough=[dict(k=3, _shards=4), dict(k=4, _shards=16)],
         functions=FUNCS + ['taurex.opacity.pickleopacity:PickleOpacity.discover', 'taurex.opacity.hdf5opacity:HDF5Opacity.discover',
                            'taurex.opacity.exotransmit:ExoTransmitOpacity.discover', 'taurex.cache.opacitycache:OpacityCache.find_list_of_molecules',
                            'taurex.cache.opacitycache:OpacityCache.load_opacity'],
         stubs=['glob.glob -> one file per format (/data/H2O.R100.pickle, /data/CH4.h5, /data/opacCO2.dat); pickle.load / h5py.File / open '
                '-> small concrete tables of the documented layout', 'log10 UF'],
         shard_depth=3, covers=['reload_after_mode_change', 'repeat_hit'],
         outside=['byte-level decoding of the files', 'plugin opacity classes', 'CIACache/KTableCache (same protocol, not exercised)'])
def cache_real_classes(ctx, k):
    """Operation histories (solver-chosen selectors) over the REAL OpacityCache driving the REAL discover()/priority()/
    constructors of PickleOpacity, HDF5Opacity and ExoTransmitOpacity (the real ClassFactory list), one file per format:
    each molecule is read from its file once per configuration and the same object is served on repeated requests;
    after set_interpolation(m) every opacity served afterwards -- whatever its format -- has mode m."""
    import glob as globm
    import h5py
    import taurex.opacity.pickleopacity as pm
    import taurex.opacity.hdf5opacity as hm
    import taurex.opacity.exotransmit as em
    from taurex.cache import OpacityCache, GlobalCache
    t, p, wn = np.array([100.0, 200.0]), np.array([1.0, 2.0]), np.array([100.0, 200.0])
    X = np.arange(1, 9, dtype=float).reshape(2, 2, 2) * 1e-20
    reads = {'pickle': 0, 'h5': 0, 'dat': 0}

    def fglob(pat, *a, **kw):
        for ext, f in (('*.pickle', '/data/H2O.R100.pickle'), ('*.h5', '/data/CH4.h5'), ('*.dat', '/data/opacCO2.dat')):
            if pat.endswith(ext):
                return [f]
        return []

    def h5file(*a, **kw):
        reads['h5'] += 1
        return _H5File(bin_edges=_DS(wn), t=_DS(t), p=_DS(p, units='bar'), xsecarr=_DS(X), mol_name=_DS('CH4'), key_iso_ll=_DS('x'))

    def pload(f, **kw):
        reads['pickle'] += 1
        return dict(wno=wn, t=t, p=p, xsecarr=X, name='H2O')
    lines = ['100.0 200.0', '1.0 2.0']
    for j in (1, 0):
        lines.append(repr(float(1e-2 / wn[j])))
        for i in range(2):
            lines.append(" ".join([repr(float(p[i]))] + [repr(float(X[i, kk, j] / 10000.0)) for kk in range(2)]))

    class _F(_DummyFile):
        def readlines(self):
            reads['dat'] += 1
            return list(lines)
    kind = {'H2O': 'pickle', 'CH4': 'h5', 'CO2': 'dat'}
    cache = OpacityCache()
    cache.clear_cache()
    saved = {kk: GlobalCache()[kk] for kk in ('xsec_interpolation', 'xsec_path', 'xsec_in_memory')}
    GlobalCache()['xsec_interpolation'] = None
    GlobalCache()['xsec_in_memory'] = None
    GlobalCache()['xsec_path'] = '/data'
    mode = 'linear'
    served = {}
    try:
        with patched(globm, glob=fglob), patched(h5py, File=h5file), \
                patched(hm, allocate_as_shared=lambda arr, logger=None, **kw: arr), \
                patched(pm, pickle=types.SimpleNamespace(load=pload), open=lambda *a, **kw: _DummyFile(),
                        allocate_as_shared=lambda arr, logger=None, **kw: arr), \
                patched(em, open=lambda *a, **kw: _F()):
            for step in range(k):
                op = ROPS[ctx.choice('op_%d' % step, len(ROPS))]
                if op.startswith('get_'):
                    mol = op[4:]
                    n0 = dict(reads)
                    o = cache[mol]
                    ctx.goal('served_name[%d]' % step, o.moleculeName == mol)
                    ctx.goal('mode_current[%d]' % step, o._interp_mode == mode)
                    others = all(reads[x] == n0[x] for x in reads if x != kind[mol] and x != 'h5')
                    if mol in served:
                        ctx.cover('repeat_hit')
                        ctx.goal('same_object[%d]' % step, o is served[mol] and reads == n0)
                    else:
                        # the HDF5 discovery opens its file to read the molecule name; the other formats are not read
                        ctx.goal('only_requested_format_read[%d]' % step, others and reads[kind[mol]] >= n0[kind[mol]] + 1)
                    served[mol] = o
                elif op.startswith('set_interp_'):
                    mode = op[len('set_interp_'):]
                    cache.set_interpolation(mode)
                    served = {}
                    ctx.cover('reload_after_mode_change')
                elif op == 'set_memory_true':
                    cache.set_memory_mode(True)
                    served = {}
                elif op == 'clear_cache':
                    cache.clear_cache()
                    served = {}
                elif op == 'list_molecules':
                    mols = cache.find_list_of_molecules()
                    ctx.goal('molecules_listed[%d]' % step, set(mols) == {'H2O', 'CH4', 'CO2'})
    finally:
        cache.clear_cache()
        for kk, v in saved.items():
            GlobalCache()[kk] = v


class _TextFile(_DummyFile):
    """file double for line-oriented readers (readline / readlines)"""
    def __init__(self, lines):
        self.lines = list(lines)
        self.pos = 0

    def readline(self):
        if self.pos >= len(self.lines):
            return ''
        self.pos += 1
        return self.lines[self.pos - 1]

    def readlines(self):
        return list(self.lines)


@harness('C14', 'cia_formats',
         quick=[dict(case='interp'), dict(case='zero_below'), dict(case='same_ranges')],
         thorough=[dict(case='interp', npts=3), dict(case='zero_above'), dict(case='zero_below', npts=3), dict(case='same_ranges', npts=3)],
         functions=FUNCS + ['taurex.cia.hitrancia:HitranCIA.load_hitran_file', 'taurex.cia.hitrancia:HitranCIA.read_header',
                            'taurex.cia.hitrancia:HitranCIA.fill_gaps', 'taurex.cia.hitrancia:HitranCIA.compute_final_grid',
                            'taurex.cia.hitrancia:HitranCiaGrid.fill_temperature', 'taurex.cia.picklecia:PickleCIA._load_pickle_file',
                            'taurex.cia.cia:CIA.cia', 'taurex.cia.hitrancia:HitranCIA.compute_cia', 'taurex.cia.picklecia:PickleCIA.compute_cia'],
         stubs=STUBS, shard_depth=4, max_paths=60000,
         outside=['more blocks / ranges than listed', 'HITRAN files whose ranges interleave'])
def cia_formats(ctx, case, npts=2):
    """Real HitranCIA loader on token lines (two wavenumber ranges A < B, three temperatures, per-temperature blocks;
    depending on `case` range B lacks the middle temperature / the lowest / the highest, or has all of them) vs the real
    PickleCIA loader on the equivalent table: same temperature grid, same sorted wavenumber grid, coefficients converted
    cm^5 -> m^5 (x 1e-10), negative entries floored at 0, missing temperatures filled by linear interpolation inside
    the range's own temperatures and by zero outside; cia(T) agrees for a symbolic T."""
    import taurex.cia.hitrancia as hc
    import taurex.cia.picklecia as pc
    T = ctx.increasing('temp', 3, gt=0)
    wA = ctx.increasing('wnA', npts, gt=0)
    wB = ctx.increasing('wnB', npts, gt=0)
    ctx.assume(wA[npts - 1] < wB[0])
    have_B = {'interp': [0, 2], 'zero_below': [1, 2], 'zero_above': [0, 1], 'same_ranges': [0, 1, 2]}[case]
    # coefficients: non-negative except one entry of range A and one whole block of range B (a block whose entries are
    # ALL negative is the interesting case for the flooring), which keeps the number of sign forks small
    sA = np.empty((3, npts), dtype=object if ctx.sym else float)
    sB = np.empty((3, npts), dtype=object if ctx.sym else float)
    for k in range(3):
        for i in range(npts):
            free_a = (k == 1 and i == 0)
            free_b = (k == have_B[0])
            sA[k, i] = ctx.real('sigA_%d_%d' % (k, i), hint=(-1, 5)) if free_a else ctx.real('sigA_%d_%d' % (k, i), ge=0, hint=(0, 5))
            sB[k, i] = ctx.real('sigB_%d_%d' % (k, i), hint=(-1, 5)) if free_b else ctx.real('sigB_%d_%d' % (k, i), ge=0, hint=(0, 5))
    tok, fl = _tokens(ctx, None)
    lines = []
    # blocks in a scrambled temperature order (the loader sorts)
    for (rng, w, s, ks) in (('A', wA, sA, [1, 0, 2]), ('B', wB, sB, list(reversed(have_B)))):
        for k in ks:
            lines.append('H2-He %s %s %d %s %s' % (tok(w[0]), tok(w[npts - 1]), npts, tok(T[k]), tok(1.0)))
            for i in range(npts):
                lines.append('%s %s' % (tok(w[i]), tok(s[k, i])))
    with patched(hc, open=lambda *a, **k: _TextFile(lines), float=fl):
        h = hc.HitranCIA('/nonexistent/H2-He_2011.cia')

    def conv(x):
        v = x * 1e-10
        return ctx.ite(ctx.lt(v, 0.0), 0.0, v)
    # the equivalent physical table
    exp = np.empty((3, 2 * npts), dtype=object if ctx.sym else float)
    for k in range(3):
        for i in range(npts):
            exp[k, i] = conv(sA[k, i])
            if k in have_B:
                exp[k, npts + i] = conv(sB[k, i])
    for k in range(3):
        if k not in have_B:
            lo, hi = min(have_B), max(have_B)
            for i in range(npts):
                if lo < k < hi:
                    a, b = conv(sB[lo, i]), conv(sB[hi, i])
                    exp[k, npts + i] = a + (b - a) * (T[k] - T[lo]) / (T[hi] - T[lo])
                else:
                    exp[k, npts + i] = 0.0
    wn_all = np.concatenate([wA, wB])
    with patched(pc, pickle=fake_pickle(dict(wno=wn_all, t=T, xsecarr=exp)), open=lambda *a, **k: _DummyFile()):
        p = pc.PickleCIA('/nonexistent/H2-He.db')
    ctx.goal('pair_name', h.pairName == 'H2-He' and p.pairName == 'H2-He')
    ctx.goal('shapes', np.shape(h._xsec_grid) == (3, 2 * npts) and len(h.temperatureGrid) == 3 and len(h.wavenumberGrid) == 2 * npts)
    if np.shape(h._xsec_grid) != (3, 2 * npts):
        return
    for k in range(3):
        ctx.goal('temperature[%d]' % k, ctx.eq(h.temperatureGrid[k], T[k]))
    for j in range(2 * npts):
        ctx.goal('wavenumber[%d]' % j, ctx.eq(h.wavenumberGrid[j], wn_all[j]))
    for k in range(3):
        for j in range(2 * npts):
            ctx.goal('table[%d,%d]' % (k, j), ctx.eq(h._xsec_grid[k, j], exp[k, j], scale=None if ctx.sym else 1e-12))
    Tq = ctx.real('T', gt=0, hint=(0.5, 4))
    a, b = np.asarray(h.cia(Tq)), np.asarray(p.cia(Tq))
    ctx.goal('cia_len', a.shape == b.shape == (2 * npts,))
    for j in range(2 * npts):
        ctx.goal('same_cia[%d]' % j, ctx.eq(a[j], b[j], scale=None if ctx.sym else 1e-12))
