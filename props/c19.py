"""C19 -- clouds and hazes act only inside their declared pressure range."""
import math

import numpy as np

from symx.harness import harness
from .common import SigmaContribution, state_model, oarr
from .c01 import _atmosphere, _contribs, _spec_tau, _run

FUNCS = ['taurex.contributions.simpleclouds:SimpleCloudsContribution.prepare_each',
         'taurex.contributions.simpleclouds:SimpleCloudsContribution.contribute',
         'taurex.contributions.flatmie:FlatMieContribution.prepare_each',
         'taurex.contributions.leemie:LeeMieContribution.prepare_each',
         'taurex.contributions.contribution:Contribution.prepare', 'taurex.model.transmission:TransmissionModel.path_integral',
         'taurex.model.transmission:TransmissionModel.compute_absorption']
STUBS = ['exp/log10/pow: UF + lemma instances', 'profile state constructed directly']


def _isinf(v):
    return isinstance(v, (float, np.floating)) and math.isinf(v)


@harness('C19', 'thick_clouds',
         quick=[dict(n=2, nw=1), dict(n=3, nw=2, _shards=4)],
         thorough=[dict(n=2, nw=2), dict(n=3, nw=2, _shards=4), dict(n=4, nw=1, _shards=8)],
         covers=['cloud_inside', 'cloud_above_all', 'cloud_below_all'], functions=FUNCS, stubs=STUBS, shard_depth=4,
         outside=['counts beyond those listed'])
def thick_clouds(ctx, n, nw):
    """Real SimpleCloudsContribution (prepare_each/contribute) + one molecular sigma contribution inside the real
    transmission path_integral, symbolic decreasing layer pressures and cloud-top pressure: every layer with
    P_l >= P_cloud has transmittance 0 at all wavenumbers, every other layer exactly the cloud-free optical depth;
    depth = the documented integral with those layers opaque (>= cloud-free depth)."""
    from taurex.model import TransmissionModel
    from taurex.contributions import SimpleCloudsContribution
    Rp, Rs, dz, z, rho = _atmosphere(ctx, n)
    P = ctx.reals('P', n, gt=0)
    for i in range(n - 1):
        ctx.assume(P[i] > P[i + 1])
    Pc = ctx.real('P_cloud', gt=0)
    wn = np.arange(1, nw + 1) * 100.0
    dl = [oarr([ctx.real('dl_%d_%d' % (l, k), ge=0) for k in range(n - l)], ctx.sym) for l in range(n)]
    cs, sig = _contribs(ctx, n, nw, ['sigma'])

    def run(with_cloud):
        tm = state_model(TransmissionModel, n, wn, Rp, Rs, z, dz, rho, P=P)
        tm.add_contribution(cs[0])
        if with_cloud:
            tm.add_contribution(SimpleCloudsContribution(clouds_pressure=Pc))
        tm.contribution_list.sort(key=lambda c: c.order)
        return _run(ctx, tm, wn, dl)
    depth, trans, tau = run(True)
    depth0, trans0, tau0 = run(False)
    # the SAME contribution object evaluated again after the cloud top moved (sampler step): layers must follow the
    # current cloud-top pressure only
    Pc2 = ctx.real('P_cloud2', gt=0)
    tm2 = state_model(TransmissionModel, n, wn, Rp, Rs, z, dz, rho, P=P)
    cloud = SimpleCloudsContribution(clouds_pressure=Pc)
    tm2.add_contribution(cs[0])
    tm2.add_contribution(cloud)
    tm2.contribution_list.sort(key=lambda c: c.order)
    _run(ctx, tm2, wn, dl)
    cloud.cloudsPressure = Pc2
    depth_b, trans_b, tau_b = _run(ctx, tm2, wn, dl)
    for l in range(n):
        cloudy2 = bool(ctx.le_strict(Pc2, P[l]))
        for w in range(nw):
            if cloudy2:
                ctx.goal('second_eval_opaque[%d,%d]' % (l, w), ctx.eq(trans_b[l, w], 0.0))
            else:
                ctx.goal('second_eval_untouched[%d,%d]' % (l, w), ctx.eq(trans_b[l, w], trans0[l, w]))
    ctx.cover_if('cloud_inside', ctx.and_(ctx.le(Pc, P[0]), ctx.lt(P[n - 1], Pc)))
    ctx.cover_if('cloud_above_all', ctx.le(Pc, P[n - 1]))
    ctx.cover_if('cloud_below_all', ctx.lt(P[0], Pc))
    for l in range(n):
        cloudy = bool(ctx.le_strict(Pc, P[l]))
        for w in range(nw):
            if cloudy:
                ctx.goal('opaque[%d,%d]' % (l, w), ctx.eq(trans[l, w], 0.0) if not _isinf(tau[l, w]) else ctx.eq(trans[l, w], 0.0))
            else:
                # untouched: same transmittance as the cloud-free run
                ctx.goal('untouched[%d,%d]' % (l, w), ctx.eq(trans[l, w], trans0[l, w]))
    for w in range(nw):
        integ = 0.0
        for l in range(n):
            t = 0.0 if bool(ctx.le_strict(Pc, P[l])) else trans0[l, w]
            integ = integ + (Rp + z[l]) * (1.0 - t) * dz[l] * 2.0
        ctx.goal('depth[%d]' % w, ctx.eq(depth[w] * Rs * Rs, Rp * Rp + integ))
        ctx.goal('ge_cloudfree[%d]' % w, ctx.le(depth0[w], depth[w]))


class _Press(object):
    def __init__(self, levels):
        self.pressure_profile_levels = levels


class _M(object):
    """minimal forward-model double for prepare_each: layer count, pressure levels/profile"""
    def __init__(self, n, levels, profile):
        self.nLayers = n
        self.pressure = _Press(levels)
        self.pressureProfile = profile


@harness('C19', 'grey_haze',
         quick=[dict(n=2, nw=1, top='set', bottom='set', _shards=4), dict(n=3, nw=2, top='set', bottom='set', _shards=8),
                dict(n=2, nw=1, top='unset', bottom='unset'), dict(n=3, nw=1, top='unset', bottom='set', _shards=2),
                dict(n=3, nw=1, top='set', bottom='unset', _shards=2)],
         thorough=[dict(n=3, nw=2, top='set', bottom='set', _shards=8), dict(n=4, nw=1, top='set', bottom='set', _shards=16),
                   dict(n=4, nw=1, top='unset', bottom='set', _shards=4), dict(n=4, nw=1, top='set', bottom='unset', _shards=4),
                   dict(n=5, nw=1, top='unset', bottom='unset'), dict(n=5, nw=1, top='set', bottom='set', _shards=16)],
         covers=['window_inside', 'inverted_bounds', 'window_outside_grid'], functions=FUNCS, stubs=STUBS, shard_depth=4,
         max_paths=60000, outside=['counts beyond those listed'])
def grey_haze(ctx, n, nw, top, bottom):
    """Real FlatMieContribution.prepare_each on symbolic decreasing pressure levels and symbolic (set / unset=-1 /
    inverted) bounds and magnitude: layers whose level interval does not meet [P_top,P_bottom] get 0, layers that
    meet it get a wavelength-independent value in (0, magnitude]; an unset bound extends the window to that end of
    the atmosphere."""
    from taurex.contributions.flatmie import FlatMieContribution
    lev = ctx.reals('L', n + 1, gt=0)            # surface first, as the pressure profile stores them
    for i in range(n):
        ctx.assume(lev[i] > lev[i + 1])
    mix = ctx.real('mix', gt=0)
    Pt = ctx.real('P_top', gt=0) if top == 'set' else -1
    Pb = ctx.real('P_bottom', gt=0) if bottom == 'set' else -1
    if top == 'set' and bottom == 'set':
        ctx.assume(ctx.ne(Pt, Pb))
        ctx.cover_if('inverted_bounds', ctx.lt(Pb, Pt))
        ctx.cover_if('window_inside', ctx.and_(ctx.lt(lev[n], Pt), ctx.lt(Pt, Pb), ctx.lt(Pb, lev[0])))
        ctx.cover_if('window_outside_grid', ctx.and_(ctx.lt(lev[0], Pt), ctx.lt(lev[0], Pb)))
    else:
        ctx.cover('inverted_bounds'), ctx.cover('window_inside'), ctx.cover('window_outside_grid')
    wn = np.arange(1, nw + 1) * 100.0
    c = FlatMieContribution(flat_mix_ratio=mix, flat_bottomP=Pb, flat_topP=Pt)
    m = _M(n, lev, None)
    try:
        comps = list(c.prepare_each(m, wn))
    except Exception as ex:
        # a window entirely outside the modelled range selects no layer: any clean outcome that adds no
        # extinction is acceptable, an exception is not
        ctx.goal('no_exception:%s' % type(ex).__name__, False)
        return
    sig = comps[0][1]
    ctx.goal('shape', np.shape(sig) == (n, nw))
    if np.shape(sig) != (n, nw):
        return
    lo_w = lev[n] if top != 'set' else None
    hi_w = lev[0] if bottom != 'set' else None
    a, b = (Pt if top == 'set' else lev[n]), (Pb if bottom == 'set' else lev[0])
    wlo = ctx.ite(ctx.le_strict(a, b), a, b)
    whi = ctx.ite(ctx.le_strict(a, b), b, a)
    for l in range(n):
        lay_hi, lay_lo = lev[l], lev[l + 1]
        meets = ctx.and_(ctx.lt(wlo, lay_hi), ctx.lt(lay_lo, whi))       # open-interval overlap
        apart = ctx.or_(ctx.le(lay_hi, wlo), ctx.le(whi, lay_lo))
        for w in range(nw):
            v = sig[l, w]
            if isinstance(v, (float, np.floating)) and v != v:
                ctx.goal('finite[%d,%d]' % (l, w), False)
                continue
            ctx.goal('outside_zero[%d,%d]' % (l, w), ctx.implies(apart, ctx.eq(v, 0.0)))
            ctx.goal('inside_positive[%d,%d]' % (l, w), ctx.implies(meets, ctx.and_(ctx.lt(0.0, v), ctx.le(v, mix))))
            if w:
                ctx.goal('grey[%d,%d]' % (l, w), ctx.eq(v, sig[l, 0]))


@harness('C19', 'lee_haze',
         quick=[dict(n=2, nw=2, top='set', bottom='set'), dict(n=3, nw=1, top='unset', bottom='unset'),
                dict(n=3, nw=1, top='set', bottom='unset')],
         thorough=[dict(n=3, nw=2, top='set', bottom='set', _shards=4), dict(n=4, nw=2, top='unset', bottom='set', _shards=4),
                   dict(n=5, nw=1, top='set', bottom='set', _shards=8), dict(n=4, nw=1, top='unset', bottom='unset')],
         functions=FUNCS, stubs=STUBS, shard_depth=4,
         outside=['BH-Mie (plugin)', 'H-'])
def lee_haze(ctx, n, nw, top, bottom):
    """Real LeeMieContribution.prepare_each: 0 for layers whose pressure is outside [P_top,P_bottom], elsewhere
    Q_ext(v) pi a^2 mix with Q_ext = 5/(Q x^-4 + x^0.2), x = 2 pi a / lambda; unset bounds = whole atmosphere."""
    from taurex.contributions.leemie import LeeMieContribution
    P = ctx.reals('P', n, gt=0)
    for i in range(n - 1):
        ctx.assume(P[i] > P[i + 1])
    a = ctx.real('radius_um', gt=0)
    Q = ctx.real('Q', gt=0)
    mix = ctx.real('mix', gt=0)
    Pt = ctx.real('P_top', gt=0) if top == 'set' else -1
    Pb = ctx.real('P_bottom', gt=0) if bottom == 'set' else -1
    wn = np.arange(1, nw + 1) * 1000.0
    c = LeeMieContribution(lee_mie_radius=a, lee_mie_q=Q, lee_mie_mix_ratio=mix, lee_mie_bottomP=Pb, lee_mie_topP=Pt)
    comps = list(c.prepare_each(_M(n, None, P), wn))
    sig = comps[0][1]
    ctx.goal('shape', np.shape(sig) == (n, nw))
    if np.shape(sig) != (n, nw):
        return
    for l in range(n):
        inside = ctx.and_(ctx.le(P[l], Pb) if bottom == 'set' else True, ctx.le(Pt, P[l]) if top == 'set' else True)
        for w in range(nw):
            lam = 10000.0 / wn[w]
            x = 2.0 * math.pi * a / lam
            qext = 5.0 / (Q * (1.0 / (x * x * x * x)) + x ** 0.2)
            am = a * 1e-6
            law = qext * math.pi * am * am * mix
            ctx.goal('inside_law[%d,%d]' % (l, w), ctx.implies(inside, ctx.eq(sig[l, w], law)))
            ctx.goal('outside_zero[%d,%d]' % (l, w), ctx.implies(ctx.not_(inside), ctx.eq(sig[l, w], 0.0)))
