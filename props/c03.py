"""C03 -- optical depth composes additively over contributions and species."""
import numpy as np

from symx.harness import harness
from symx.core import UF
from .common import SigmaContribution, state_model, oarr, patched
from .c01 import _atmosphere, _run

FUNCS = ['taurex.contributions.contribution:Contribution.prepare', 'taurex.contributions.absorption:AbsorptionContribution.prepare',
         'taurex.contributions.absorption:AbsorptionContribution.prepare_each', 'taurex.contributions.absorption:AbsorptionContribution.contribute',
         'taurex.contributions.cia:CIAContribution.prepare_each', 'taurex.contributions.cia:CIAContribution.contribute',
         'taurex.contributions.rayleigh:RayleighContribution.prepare_each', 'taurex.model.simplemodel:SimpleForwardModel.model',
         'taurex.model.simplemodel:SimpleForwardModel.model_contrib', 'taurex.model.simplemodel:SimpleForwardModel.model_full_contrib',
         'taurex.model.simplemodel:SimpleForwardModel.build', 'taurex.model.transmission:TransmissionModel.path_integral']
STUBS = ['OpacityCache()[gas].opacity(T,P,wn) -> symbolic non-negative row per (gas, layer)', 'CIACache()[pair].cia(T,wn) -> symbolic '
         'non-negative row per (pair, layer)', 'rayleigh_sigma_from_name -> symbolic non-negative sigma per gas (None for gases without one)',
         'chemistry -> double with symbolic non-negative mixing-ratio profiles', 'exp UF incl. the product-rule instance for the '
         'transmittance-product goal']


class _Chem(object):
    hasCondensates = False

    def __init__(self, active, inactive, mix):
        self.activeGases, self.inactiveGases, self._mix = list(active), list(inactive), mix

    def get_gas_mix_profile(self, g):
        return self._mix[g]

    @property
    def muProfile(self):
        return None


class _Xsec(object):
    def __init__(self, rows, Tl):
        self.rows, self.Tl = rows, Tl
        self.weights = None

    def opacity(self, T, P, wngrid=None):
        return self.rows[self.Tl.index(float(T))].copy()

    def cia(self, T, wngrid=None):
        return self.rows[self.Tl.index(float(T))].copy()


class _Cache(object):
    def __init__(self, d):
        self.d = d

    def __call__(self):
        return self

    def __getitem__(self, k):
        return self.d[k]


class _Pair(_Xsec):
    def __init__(self, rows, Tl, a, b):
        _Xsec.__init__(self, rows, Tl)
        self.pairOne, self.pairTwo = a, b


def _world(ctx, n, nw, gases, pairs, zero_gas=None, positive=False):
    """symbolic mixing ratios, per-gas cross-sections, per-pair CIA coefficients, per-gas Rayleigh sigmas"""
    Tl = [1000.0 + l for l in range(n)]
    mix = {}
    for g in gases:
        if g == zero_gas:
            mix[g] = oarr([0.0] * n, ctx.sym) if ctx.sym else np.zeros(n)
        else:
            mix[g] = ctx.reals('mix_%s' % g, n, hint=(0.01, 1), **({'gt': 0} if positive else {'ge': 0}))
    xs = {g: ctx.array('x_%s' % g, (n, nw), ge=0, hint=(0, 5)) for g in gases}
    cia = {p: ctx.array('cia_%s' % p.replace('-', '_'), (n, nw), ge=0, hint=(0, 5)) for p in pairs}
    ray = {g: ctx.reals('ray_%s' % g, nw, ge=0, hint=(0, 5)) for g in gases}
    return Tl, mix, xs, cia, ray


def _envs(Tl, xs, cia, ray, pairs):
    import taurex.contributions.absorption as ab
    import taurex.contributions.cia as ci
    import taurex.util.scattering as sc
    from taurex.cache import GlobalCache
    GlobalCache()['opacity_method'] = None
    oc = _Cache({g: _Xsec([xs[g][l] for l in range(len(Tl))], Tl) for g in xs})
    cc = _Cache({p: _Pair([cia[p][l] for l in range(len(Tl))], Tl, *p.split('-')) for p in pairs})
    return [patched(ab, OpacityCache=oc, KTableCache=oc), patched(ci, CIACache=cc),
            patched(sc, rayleigh_sigma_from_name=lambda name, wn: ray.get(name))]


@harness('C03', 'components',
         quick=[dict(n=2, nw=1, ngas=2), dict(n=2, nw=2, ngas=2, zero='H2O'), dict(n=3, nw=1, ngas=3)],
         thorough=[dict(n=2, nw=2, ngas=3), dict(n=3, nw=2, ngas=3), dict(n=3, nw=2, ngas=2, zero='CH4'), dict(n=4, nw=1, ngas=3)],
         functions=FUNCS, stubs=STUBS, outside=['H- and Mie internals (C19 covers where hazes act)', 'counts beyond those listed'])
def components(ctx, n, nw, ngas, zero=None):
    """Real AbsorptionContribution.prepare/prepare_each, CIAContribution.prepare/prepare_each and
    RayleighContribution.prepare/prepare_each against cache/chemistry doubles: each yielded component equals
    cross-section x mixing ratio layer by layer (both partners' ratios for CIA), the prepared total is the sum of
    the components, a species at zero abundance contributes nothing (its component is zero or absent)."""
    from taurex.contributions import AbsorptionContribution, CIAContribution, RayleighContribution
    gases = ['H2O', 'CH4', 'CO2'][:ngas]
    pairs = ['H2O-CH4', 'CH4-CH4'][:max(1, ngas - 1)]
    Tl, mix, xs, cia, ray = _world(ctx, n, nw, gases, pairs, zero)
    wn = np.arange(1, nw + 1) * 100.0
    chem = _Chem(gases[:-1], gases[-1:], mix)       # last gas has no opacity data (inactive)

    class _Model(object):
        nLayers = n
        chemistry = chem
        temperatureProfile = np.array(Tl)
        pressureProfile = np.logspace(5, 0, n)
    m = _Model()
    envs = _envs(Tl, xs, cia, ray, pairs)
    for e in envs:
        e.__enter__()
    try:
        ab, ci, ra = AbsorptionContribution(), CIAContribution(cia_pairs=list(pairs)), RayleighContribution()
        got = {}
        first = {}
        for name, c in (('abs', ab), ('cia', ci), ('ray', ra)):
            c._nlayers, c._ngrid = n, nw
            got[name] = [(g, np.array(s, dtype=object if ctx.sym else float).copy()) for g, s in c.prepare_each(m, wn)]
            c.prepare(m, wn)
            first[name] = np.array(c.sigma_xsec, dtype=object if ctx.sym else float).copy()
        # a second evaluation of the same objects after the abundances changed (a sampler step): totals must be
        # those of the current state only (no buffer carried over)
        mix2 = {g: (mix[g] if g == zero else mix[g] * 2.0) for g in gases}      # abundances doubled
        chem._mix = mix2
        second = {}
        for name, c in (('abs', ab), ('cia', ci), ('ray', ra)):
            c.prepare(m, wn)
            second[name] = np.array(c.sigma_xsec, dtype=object if ctx.sym else float).copy()
        chem._mix = mix
    finally:
        for e in reversed(envs):
            e.__exit__(None, None, None)
    exp2 = {'abs': [lambda l, v, g=g: xs[g][l, v] * mix2[g][l] for g in chem.activeGases],
            'cia': [lambda l, v, p=p: cia[p][l, v] * mix2[p.split('-')[0]][l] * mix2[p.split('-')[1]][l] for p in pairs],
            'ray': [lambda l, v, g=g: ray[g][v] * mix2[g][l] for g in gases if g != zero]}
    for name in ('abs', 'cia', 'ray'):
        for l in range(n):
            for v in range(nw):
                sm = 0.0
                for f in exp2[name]:
                    sm = sm + f(l, v)
                ctx.goal('%s_total_second_evaluation[%d,%d]' % (name, l, v), ctx.eq(second[name][l, v], sm))
        # (with every abundance doubled this also shows the weighted opacity is proportional to the abundance)
    exp = {'abs': [(g, lambda l, v, g=g: xs[g][l, v] * mix[g][l]) for g in chem.activeGases],
           'cia': [(p, lambda l, v, p=p: cia[p][l, v] * mix[p.split('-')[0]][l] * mix[p.split('-')[1]][l]) for p in pairs],
           'ray': [(g, lambda l, v, g=g: ray[g][v] * mix[g][l]) for g in (list(chem.activeGases) + list(chem.inactiveGases))
                   if g != zero and not bool(ctx.and_([ctx.eq(mix[g][l], 0.0) for l in range(n)]))]}
    for name, c in (('abs', ab), ('cia', ci), ('ray', ra)):
        names = [g for g, _ in got[name]]
        ctx.goal('%s_component_names' % name, names == [g for g, _ in exp[name]])
        if names != [g for g, _ in exp[name]]:
            continue
        for (g, s), (_, f) in zip(got[name], exp[name]):
            ctx.goal('%s_shape[%s]' % (name, g), np.shape(s) == (n, nw))
            for l in range(n):
                for v in range(nw):
                    ctx.goal('%s_component[%s,%d,%d]' % (name, g, l, v), ctx.eq(s[l, v], f(l, v)))
        tot = first[name]
        for l in range(n):
            for v in range(nw):
                sm = 0.0
                for _, f in exp[name]:
                    sm = sm + f(l, v)
                ctx.goal('%s_total[%d,%d]' % (name, l, v), ctx.eq(tot[l, v], sm))


@harness('C03', 'composition',
         quick=[dict(n=2, nw=1, order=[0, 1, 2], _shards=2), dict(n=2, nw=1, order=[2, 0, 1], _shards=2), dict(n=2, nw=2, order=[1, 2, 0], unit_geometry=True, _shards=8)],
         thorough=[dict(n=2, nw=2, order=o, unit_geometry=True, _shards=8) for o in ([0, 1, 2], [2, 1, 0], [1, 0, 2])] +
                  [dict(n=2, nw=1, order=o, _shards=2) for o in ([0, 1, 2], [2, 1, 0], [1, 0, 2], [0, 2, 1])] +
                  [dict(n=3, nw=1, order=[2, 0, 1], _shards=8), dict(n=3, nw=2, order=[0, 2, 1], unit_geometry=True, _shards=16)],
         covers=['unsaturated', 'saturated'], functions=FUNCS, stubs=STUBS, shard_depth=4, max_paths=40000,
         outside=['counts beyond those listed'])
def composition(ctx, n, nw, order, unit_geometry=False):
    """Real build()/model()/model_contrib()/model_full_contrib() of a TransmissionModel holding the real
    Absorption, CIA and Rayleigh contributions (added in the given order): total optical depth = sum over
    contributions of the depth each gives alone = sum over all components (exact unless a layer saturates, then the
    C01 licence); transmittance = product of the single-source transmittances; the result is the same as for the
    canonical insertion order (the right-hand sides are order-free single-source runs, the harness is run for several insertion orders); the contribution list is restored after the per-contribution runs."""
    from taurex.model import TransmissionModel
    from taurex.contributions import AbsorptionContribution, CIAContribution, RayleighContribution
    gases = ['H2O', 'CH4']
    pairs = ['H2O-CH4']
    Rp, Rs, dz, z, rho = _atmosphere(ctx, n)
    Tl, mix, xs, cia, ray = _world(ctx, n, nw, gases, pairs, positive=True)
    wn = np.arange(1, nw + 1) * 100.0
    if unit_geometry:
        # chord lengths and densities fixed to 1 (C01 decides the kernel's use of them); keeps tau bilinear
        dl = [np.ones(n - l) for l in range(n)]
        rho = np.ones(n)
    else:
        dl = [oarr([ctx.real('dl_%d_%d' % (l, k), ge=0) for k in range(n - l)], ctx.sym) for l in range(n)]
    chem = _Chem(gases, [], mix)
    envs = _envs(Tl, xs, cia, ray, pairs)
    for e in envs:
        e.__enter__()
    try:
        def fresh(ordr):
            tm = state_model(TransmissionModel, n, wn, Rp, Rs, z, dz, rho, T=np.array(Tl), P=np.logspace(5, 0, n), chemistry=chem)
            cs = [AbsorptionContribution(), CIAContribution(cia_pairs=list(pairs)), RayleighContribution()]
            for i in ordr:
                tm.add_contribution(cs[i])
            tm.contribution_list.sort(key=lambda x: x.order)      # what build() does first
            tm.compute_path_length_old = lambda _dz: dl
            taus = []
            real_ca = tm.compute_absorption

            def spy(tau, _dz):
                taus.append(tau.copy())
                return real_ca(tau, _dz)
            tm.compute_absorption = spy
            return tm, taus
        tm, taus = fresh(order)
        before = list(tm.contribution_list)
        _, depth, trans, _ = tm.model()
        tau_total = taus[-1]
        _, cdict = tm.model_contrib()
        tau_c = {name: t for name, t in zip([c.name for c in before], taus[-len(before):])}
        restored1 = list(tm.contribution_list) == before and all(a is b for a, b in zip(tm.contribution_list, before))
        k0 = len(taus)
        _, fdict = tm.model_full_contrib()
        restored2 = list(tm.contribution_list) == before and all(a is b for a, b in zip(tm.contribution_list, before))
        comp_taus = taus[k0:]
    finally:
        for e in reversed(envs):
            e.__exit__(None, None, None)
    ctx.goal('list_restored', restored1 and restored2)
    ctx.goal('one_result_per_contribution', sorted(cdict) == sorted(c.name for c in before) and sorted(fdict) == sorted(cdict))
    ncomp = sum(len(v) for v in fdict.values())
    ctx.goal('component_count', ncomp == len(comp_taus) and ncomp == 2 + 1 + 2)
    for l in range(n):
        sat = ctx.and_([ctx.lt(10.0, tau_total[l, v]) for v in range(nw)])
        ctx.cover_if('saturated', sat)
        ctx.cover_if('unsaturated', ctx.not_(sat))
        for v in range(nw):
            s_c = 0.0
            for name in tau_c:
                s_c = s_c + tau_c[name][l, v]
            s_k = 0.0
            for t in comp_taus:
                s_k = s_k + t[l, v]
            ctx.goal('additive_over_contributions[%d,%d]' % (l, v),
                     ctx.or_(ctx.eq(tau_total[l, v], s_c), ctx.and_(sat, ctx.le(tau_total[l, v], s_c))))
            ctx.goal('contributions_are_sum_of_components[%d,%d]' % (l, v), ctx.eq(s_c, s_k))
            # transmittance = product of the single-source transmittances (product rule instance for exp)
            prod = 1.0
            for name in tau_c:
                prod = prod * cdict[name][1][l, v]
            if ctx.sym:
                ctx.lemma(UF['exp'](-(s_c.t) if hasattr(s_c, 't') else -s_c) == prod.t)
            ctx.goal('transmittance_product[%d,%d]' % (l, v), ctx.or_(ctx.eq(trans[l, v], prod), sat))
