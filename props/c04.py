"""C04 -- opacity interpolation in temperature and pressure is sound everywhere."""
import numpy as np

from symx.harness import harness
from .common import make_pickle_opacity, make_pickle_ktable

FUNCS = ['taurex.opacity.interpolateopacity:InterpolatingOpacity.find_closest_index',
         'taurex.opacity.interpolateopacity:InterpolatingOpacity.interp_bilinear_grid',
         'taurex.opacity.interpolateopacity:InterpolatingOpacity.interp_temp_only',
         'taurex.opacity.interpolateopacity:InterpolatingOpacity.interp_pressure_only',
         'taurex.opacity.interpolateopacity:InterpolatingOpacity.compute_opacity',
         'taurex.opacity.opacity:Opacity.opacity', 'taurex.opacity.ktables.ktable:KTable.opacity',
         'taurex.util.util:find_closest_pair', 'taurex.util.math:interp_lin_numba',
         'taurex.util.math:intepr_bilin_numba_II', 'taurex.util.math:interp_exp_and_lin_numpy',
         'taurex.util.math:interp_exp_numpy', 'taurex.opacity.pickleopacity:PickleOpacity._load_pickle_file']

REGIONS = ['T_lo&P_lo', 'T_lo&P_in', 'T_lo&P_hi', 'T_in&P_lo', 'T_in&P_in', 'T_in&P_hi',
           'T_hi&P_lo', 'T_hi&P_in', 'T_hi&P_hi', 'node']


def _bracket(ctx, v, grid):
    """independent bracketing: indices of the nodes around v, clamped to the grid.
    -> (lo, hi, where) where in {'lo','in','hi'}; forks (after the code under test has run)."""
    n = len(grid)
    if bool(ctx.lt(v, grid[0])):
        return 0, 0, 'lo'
    if bool(ctx.le_strict(grid[n - 1], v)):
        return n - 1, n - 1, 'hi'
    for i in range(n - 1):
        if bool(ctx.lt(v, grid[i + 1])):
            return i, i + 1, 'in'
    raise AssertionError('unreachable')


@harness('C04', 'xsec',
         quick=[dict(nt=2, npr=2, nw=1, mode='linear'), dict(nt=2, npr=2, nw=1, mode='exp'),
                dict(nt=3, npr=3, nw=1, mode='linear', _shards=4), dict(nt=3, npr=3, nw=1, mode='exp', _shards=4),
                dict(nt=2, npr=2, nw=2, mode='linear', ktable=2)],
         thorough=[dict(nt=2, npr=2, nw=2, mode='linear'), dict(nt=2, npr=2, nw=2, mode='exp'),
                   dict(nt=3, npr=3, nw=2, mode='linear', _shards=4), dict(nt=3, npr=3, nw=2, mode='exp', _shards=4),
                   dict(nt=4, npr=3, nw=1, mode='linear', _shards=4), dict(nt=4, npr=3, nw=1, mode='exp', _shards=4),
                   dict(nt=3, npr=4, nw=1, mode='linear', _shards=4), dict(nt=3, npr=4, nw=1, mode='exp', _shards=4),
                   dict(nt=2, npr=2, nw=2, mode='linear', ktable=2), dict(nt=3, npr=3, nw=1, mode='exp', ktable=2, _shards=4),
                   dict(nt=2, npr=1, nw=1, mode='linear'), dict(nt=1, npr=2, nw=1, mode='linear')],
         covers=REGIONS, functions=FUNCS, shard_depth=4,
         stubs=['pickle.load/open -> the symbolic table (loader runs for real)',
                'log10: UF, strictly increasing on positives; exp/ln: UF with positivity, monotonicity, exp(0)=1, '
                'exp(-ln(a/b))=b/a instance for the exp-mode range goal'],
         outside=['table entries equal to 0 in exp mode (ln 0)', 'grids with repeated nodes', 'grid sizes beyond those listed'])
def xsec(ctx, nt, npr, nw, mode, ktable=0):
    """Real PickleOpacity/PickleKTable (loader on a stubbed pickle) -> .opacity(T, P): symbolic T>0, P>0,
    strictly increasing positive temperature/pressure grids, positive table. Per path: (i) node values
    reproduced; (ii) min(corners) <= 1e4*result <= max(corners) at the clamped bracketing nodes;
    (iii) inside a cell the bilinear / exp-in-1/T x linear-in-logP closed form; (iv) zero below both minima."""
    tg = ctx.increasing('t', nt, gt=0)
    pg = ctx.increasing('p', npr, gt=0)     # bar
    shape = (npr, nt, nw) + ((ktable,) if ktable else ())
    X = ctx.array('x', shape, gt=0)
    T = ctx.real('T', gt=0)
    P = ctx.real('P', gt=0)                 # Pa
    wn = np.arange(1, nw + 1) * 100.0
    if ktable:
        wts = np.ones(ktable) / ktable
        op = make_pickle_ktable(dict(bin_centers=wn, ngauss=ktable, t=tg, p=pg, kcoeff=X, weights=wts, name='H2O'), mode)
    else:
        op = make_pickle_opacity(dict(wno=wn, t=tg, p=pg, xsecarr=X, name='H2O'), mode)
    res = op.opacity(T, P)
    res = np.asarray(res)
    ctx.goal('shape', res.shape == ((nw, ktable) if ktable else (nw,)))
    if res.shape != ((nw, ktable) if ktable else (nw,)):
        return

    # ------------- independent specification
    lP = ctx.log10(P)
    lpg = [ctx.log10(pg[i] * 1e5) for i in range(npr)]
    tlo, thi, twhere = _bracket(ctx, T, tg)
    plo, phi, pwhere = _bracket(ctx, lP, lpg)
    ctx.cover('T_%s&P_%s' % (twhere, pwhere))
    at_t_node = twhere == 'in' and bool(ctx.eq(T, tg[tlo]))
    at_p_node = pwhere == 'in' and bool(ctx.eq(lP, lpg[plo]))
    if at_t_node and at_p_node:
        ctx.cover('node')
    ctx.note('region', 'T_%s&P_%s' % (twhere, pwhere))
    ctx.region('mixed_corner', (twhere == 'hi' and pwhere == 'lo') or (twhere == 'lo' and pwhere == 'hi'))

    for idx in np.ndindex(res.shape):
        r = res[idx] * 10000.0
        x = lambda pi, ti: X[(pi, ti) + idx]
        tag = ','.join(map(str, idx))
        if twhere == 'lo' and pwhere == 'lo':
            ctx.goal('zero_below_both[%s]' % tag, ctx.eq(r, 0.0))
            continue
        corners = [x(pi, ti) for pi in sorted({plo, phi}) for ti in sorted({tlo, thi})]
        ctx.goal('ge_min[%s]' % tag, ctx.or_([ctx.le(c, r) for c in corners]))
        ctx.goal('le_max[%s]' % tag, ctx.or_([ctx.le(r, c) for c in corners]))
        ctx.goal('nonneg[%s]' % tag, ctx.le(0.0, r))
        # nodes reproduced (also when only one coordinate is on a node and the other is clamped)
        t_exact = at_t_node or twhere != 'in'
        p_exact = at_p_node or pwhere != 'in'
        if t_exact and p_exact:
            ctx.goal('node[%s]' % tag, ctx.eq(r, x(plo, tlo)))
        if twhere == 'in' and pwhere == 'in':
            s = (lP - lpg[plo]) / (lpg[phi] - lpg[plo])
            a = x(plo, tlo) + (x(phi, tlo) - x(plo, tlo)) * s      # P-interpolant at T_lo
            b = x(plo, thi) + (x(phi, thi) - x(plo, thi)) * s      # P-interpolant at T_hi
            if mode == 'linear':
                u = (T - tg[tlo]) / (tg[thi] - tg[tlo])
                ctx.goal('bilinear[%s]' % tag, ctx.eq(r, a + (b - a) * u))
            else:
                th = tg[thi] * (tg[tlo] - T) / (T * (tg[thi] - tg[tlo]))
                L = ctx.log(a / b)
                ctx.goal('expform[%s]' % tag, ctx.eq(r, a * ctx.exp(th * L)))
        if mode == 'exp' and ctx.sym:
            _exp_lemmas(ctx, res[idx])


def _exp_lemmas(ctx, term):
    """true facts about exp/ln instances occurring in the result: for every exp(c*ln(q)) in the term add
    exp(-ln q) = 1/q, exp(ln q) = q (q>0) so that the range goals (monotone in the exponent) can close."""
    import z3
    from symx.core import Sym, UF
    seen = set()

    def walk(t):
        if t.get_id() in seen:
            return
        seen.add(t.get_id())
        if z3.is_app(t) and t.decl().name() == 'ln':
            q = t.arg(0)
            L = Sym(t)
            e1 = (-L).exp()
            e2 = L.exp()
            ctx.lemma(z3.Implies(q > 0, e1.t * q == 1))
            ctx.lemma(z3.Implies(q > 0, e2.t == q))
            (L * 0).exp()
        for c in t.children():
            walk(c)
    if isinstance(term, Sym):
        walk(term.t)


@harness('C04', 'subrange_sequence',
         quick=[dict(nt=2, npr=2, mode='linear', _shards=8), dict(nt=2, npr=1, mode='exp', _shards=4)],
         thorough=[dict(nt=2, npr=2, mode='exp', _shards=16), dict(nt=3, npr=2, mode='linear', _shards=16), dict(nt=2, npr=3, mode='exp', _shards=16), dict(nt=2, npr=2, mode='linear', ktable=2, _shards=4)],
         covers=['same_cell', 'different_cell'], functions=FUNCS, shard_depth=4, max_paths=60000,
         stubs=['pickle.load/open -> the symbolic table', 'log10/exp/ln UF'],
         outside=['sequences longer than two calls', 'requested grids that are not runs of native points (see C13)'])
def subrange_sequence(ctx, nt, npr, mode, ktable=0):
    """Two successive real .opacity(T,P,wngrid) calls on ONE object with different wavenumber sub-ranges (symbolic
    T1,P1,T2,P2 in any region/cell): the second answer equals what a freshly loaded object returns for the same
    request, and equals the full-grid answer restricted to the sub-range (no state carried between calls)."""
    nw = 3
    tg = ctx.increasing('t', nt, gt=0)
    pg = ctx.increasing('p', npr, gt=0)
    shape = (npr, nt, nw) + ((ktable,) if ktable else ())
    X = ctx.array('x', shape, gt=0)
    T1, P1 = ctx.real('T1', gt=0), ctx.real('P1', gt=0)
    T2, P2 = ctx.real('T2', gt=0), ctx.real('P2', gt=0)
    wn = np.array([100.0, 200.0, 300.0])

    def load():
        if ktable:
            return make_pickle_ktable(dict(bin_centers=wn, ngauss=ktable, t=tg, p=pg, kcoeff=X, weights=np.ones(ktable) / ktable, name='H2O'), mode)
        return make_pickle_opacity(dict(wno=wn, t=tg, p=pg, xsecarr=X, name='H2O'), mode)
    op = load()
    sub1, sub2 = wn[0:2].copy(), wn[1:3].copy()
    r1 = np.asarray(op.opacity(T1, P1, sub1))
    r2 = np.asarray(op.opacity(T2, P2, sub2))
    fresh = np.asarray(load().opacity(T2, P2, sub2))
    full = np.asarray(load().opacity(T2, P2))
    lP1, lP2 = ctx.log10(P1), ctx.log10(P2)
    same_cell = ctx.and_([ctx.eq(ctx.lt(T1, tg[i]), ctx.lt(T2, tg[i])) if False else
                          ctx.or_(ctx.and_(ctx.lt(T1, tg[i]), ctx.lt(T2, tg[i])), ctx.and_(ctx.le(tg[i], T1), ctx.le(tg[i], T2))) for i in range(nt)])
    ctx.cover_if('same_cell', same_cell)
    ctx.cover_if('different_cell', ctx.not_(same_cell))
    eshape = (2, ktable) if ktable else (2,)
    ctx.goal('shapes', r1.shape == eshape and r2.shape == eshape and fresh.shape == eshape)
    if not (r1.shape == eshape and r2.shape == eshape and fresh.shape == eshape):
        return
    for idx in np.ndindex(eshape):
        tag = ','.join(map(str, idx))
        ctx.goal('second_call_like_fresh[%s]' % tag, ctx.eq(r2[idx], fresh[idx]))
        fidx = (idx[0] + 1,) + idx[1:]
        ctx.goal('subrange_is_restriction[%s]' % tag, ctx.eq(r2[idx], full[fidx]))
