"""C07 -- retrieval set-up depends only on current settings; updates touch only fitted parameters."""
import math

import numpy as np

from symx.harness import harness
from .common import patched
from . import stubs
from .optdoubles import make_model

FUNCS = ['taurex.optimizer.optimizer:Optimizer.enable_fit', 'taurex.optimizer.optimizer:Optimizer.disable_fit',
         'taurex.optimizer.optimizer:Optimizer.set_mode', 'taurex.optimizer.optimizer:Optimizer.set_boundary',
         'taurex.optimizer.optimizer:Optimizer.set_factor_boundary', 'taurex.optimizer.optimizer:Optimizer.set_prior',
         'taurex.optimizer.optimizer:Optimizer.enable_derived', 'taurex.optimizer.optimizer:Optimizer.disable_derived',
         'taurex.optimizer.optimizer:Optimizer.compile_params', 'taurex.optimizer.optimizer:compile_params',
         'taurex.optimizer.optimizer:Optimizer.update_model', 'taurex.optimizer.optimizer:Optimizer.fit_names',
         'taurex.optimizer.optimizer:Optimizer.fit_values', 'taurex.optimizer.optimizer:Optimizer.fit_boundaries',
         'taurex.optimizer.optimizer:Optimizer.derived_names', 'taurex.data.fittable:Fittable.add_fittable_param']
STUBS = ['forward model / observation -> doubles built with the real Fittable machinery (3 model parameters a:linear and c:linear fitted by '
         'default, b:log; 1 observation parameter; 1 model derived parameter)', 'operation kinds and targets -> symbolic '
         'integer selectors concretised by forking; every numeric argument symbolic', 'scipy ppf -> contract stubs; log10/exp10 UF']

OPS = ['enable_fit', 'disable_fit', 'set_mode_log', 'set_mode_linear', 'set_boundary', 'set_factor_boundary',
       'set_prior_uniform', 'set_prior_loguniform', 'compile_params', 'enable_derived', 'disable_derived', 'update_model']
PARAMS = ['a', 'b', 'c', 'obs_scale']


def _observation(ctx, bounds):
    from taurex.data.spectrum.array import ArraySpectrum
    arr = np.array([[2.0, 1.0, 0.1, 0.2], [1.0, 1.0, 0.1, 0.2]])

    class _Obs(ArraySpectrum):
        def __init__(self, a):
            super().__init__(a)
            self._scale = 1.5

            def fget(s):
                return s._scale

            def fset(s, v):
                s._scale = v
            self.add_fittable_param('obs_scale', 'obs_scale', fget, fset, 'linear', False, bounds)
    return _Obs(arr)


def _lg(ctx, x):
    """log10 as the code computes it: float log10 of a concrete number, UF log10 of a symbolic one"""
    from symx.core import Sym
    return ctx.log10(x) if isinstance(x, Sym) else math.log10(float(x))


class _Oracle(object):
    """what the CURRENT settings imply (no history): tuples of (mode, fit, bounds), user priors, derived flags"""
    def __init__(self, values, bounds):
        self.mode = dict(a='linear', b='log', c='linear', obs_scale='linear')
        self.fit = dict(a=True, b=False, c=True, obs_scale=False)
        self.bounds = dict(bounds)
        self.prior = {}
        self.derived = dict(psum=False)
        self.values = values


@harness('C07', 'history',
         quick=[dict(k=1), dict(k=2, _shards=16)],
         thorough=[dict(k=2, _shards=16), dict(k=3, _shards=16, restrict=True)],
         functions=FUNCS, stubs=STUBS, shard_depth=6, max_paths=60000,
         covers=['recompile_after_change', 'user_prior', 'update_model'],
         outside=['histories longer than listed', 'real forward models (doubles built with the real Fittable machinery)'])
def history(ctx, k, restrict=False):
    """Symbolic operation histories of length k over the real Optimizer API followed by compile_params(): fit names/order,
    boundaries, priors, reported values are those implied by the CURRENT parameter tuples and user priors alone; a
    reported value is in the space of its name/prior so update_model(fit_values) changes nothing; update_model(v) sets
    exactly the fitted parameters to prior.prior(v_k); a wrong-length vector raises ValueError; an unknown parameter
    name is an error."""
    import taurex.core.priors as pm
    from taurex.optimizer.optimizer import Optimizer
    from taurex.core.priors import Uniform, LogUniform, PriorMode
    nn = 2
    coef = [np.ones(nn), np.ones(nn), np.ones(nn)]
    bnd = {p: [ctx.real('bound_lo_%s' % p, gt=0, hint=(0.1, 1)), ctx.real('bound_hi_%s' % p, gt=0, hint=(2, 9))] for p in PARAMS}
    for p in PARAMS:
        ctx.assume(bnd[p][0] < bnd[p][1])
    model = make_model(coef, np.zeros(nn), bounds=[bnd['a'], bnd['b'], bnd['c']], fits=(True, False, True))
    vals = dict(a=ctx.real('val_a', gt=0, hint=(0.5, 5)), b=ctx.real('val_b', gt=0, hint=(0.5, 5)),
                c=ctx.real('val_c', gt=0, hint=(0.5, 5)), obs_scale=ctx.real('val_obs', gt=0, hint=(0.5, 5)))
    model.p = [vals['a'], vals['b'], vals['c']]
    obs = _observation(ctx, bnd['obs_scale'])
    obs._scale = vals['obs_scale']
    env = patched(pm, stats=stubs.stats_stub) if ctx.sym else patched(pm)
    with env:
        opt = Optimizer('symx', observed=obs, model=model)
        orc = _Oracle(dict(vals), {p: list(bnd[p]) for p in PARAMS})
        compiled_since_change = {}
        stale = False
        for step in range(k):
            if restrict:
                # length-3 histories over the operations that interact (fit flags, bounds, mode, user prior, compile)
                # and two model parameters
                op = ['enable_fit', 'disable_fit', 'set_boundary', 'set_mode_log', 'set_prior_loguniform', 'compile_params'][ctx.choice('op_%d' % step, 6)]
                tgt = ['a', 'b'][ctx.choice('target_%d' % step, 2)]
            else:
                op = OPS[ctx.choice('op_%d' % step, len(OPS))]
                tgt = PARAMS[ctx.choice('target_%d' % step, len(PARAMS))]
            x1 = ctx.real('arg1_%d' % step, gt=0, hint=(0.5, 4))
            x2 = ctx.real('arg2_%d' % step, gt=0, hint=(0.5, 4))
            ctx.assume(ctx.ne(x1, x2))
            try:
                if op == 'enable_fit':
                    opt.enable_fit(tgt); orc.fit[tgt] = True
                elif op == 'disable_fit':
                    opt.disable_fit(tgt); orc.fit[tgt] = False
                elif op == 'set_mode_log':
                    opt.set_mode(tgt, 'log'); orc.mode[tgt] = 'log'
                elif op == 'set_mode_linear':
                    opt.set_mode(tgt, 'Linear'); orc.mode[tgt] = 'linear'
                elif op == 'set_boundary':
                    opt.set_boundary(tgt, [x1, x2]); orc.bounds[tgt] = [x1, x2]
                elif op == 'set_factor_boundary':
                    opt.set_factor_boundary(tgt, [x1, x2]); orc.bounds[tgt] = [x1 * orc.values[tgt], x2 * orc.values[tgt]]
                elif op == 'set_prior_uniform':
                    opt.set_prior(tgt, Uniform(bounds=[x1, x2])); orc.prior[tgt] = ('lin', x1, x2)
                    ctx.cover('user_prior')
                elif op == 'set_prior_loguniform':
                    opt.set_prior(tgt, LogUniform(bounds=[x1, x2])); orc.prior[tgt] = ('log', x1, x2)
                    ctx.cover('user_prior')
                elif op == 'compile_params':
                    opt.compile_params()
                    for p in PARAMS:
                        compiled_since_change[p] = True
                elif op == 'enable_derived':
                    opt.enable_derived('psum'); orc.derived['psum'] = True
                elif op == 'disable_derived':
                    opt.disable_derived('psum'); orc.derived['psum'] = False
                elif op == 'update_model':
                    opt.compile_params()
                    for p in PARAMS:
                        compiled_since_change[p] = True
                    fitted = [p for p in PARAMS if orc.fit[p]]
                    v = [ctx.real('upd_%d_%d' % (step, i), gt=0, hint=(0.5, 3)) for i in range(len(fitted))]
                    before = dict(orc.values)
                    opt.update_model(v)
                    ctx.cover('update_model')
                    for i, p in enumerate(fitted):
                        pri = orc.prior.get(p, ('log' if orc.mode[p] == 'log' else 'lin',))
                        orc.values[p] = ctx.exp10(v[i]) if pri[0] == 'log' else v[i]
                    cur = dict(a=model.p[0], b=model.p[1], c=model.p[2], obs_scale=obs._scale)
                    for p in PARAMS:
                        ctx.goal('update_sets_exactly_fitted[%d,%s]' % (step, p), ctx.eq(cur[p], orc.values[p]))
            except Exception as ex:
                ctx.goal('op_never_fails[%d]:%s(%s):%s' % (step, op, tgt, type(ex).__name__), False)
                return
            if op in ('set_mode_log', 'set_mode_linear', 'set_boundary', 'set_factor_boundary') and \
                    compiled_since_change.get(tgt) and tgt not in orc.prior:
                stale = True
                ctx.cover('recompile_after_change')
        ctx.region('stale_default_prior', stale)
        ctx.note('history', 'see decisions')
        opt.compile_params()
        # ---------------- oracle from current settings only
        fitted = [p for p in PARAMS if orc.fit[p]]
        names = opt.fit_names
        exp_names = []
        exp_space = {}
        for p in fitted:
            pri = orc.prior.get(p)
            space = pri[0] if pri is not None else ('log' if orc.mode[p] == 'log' else 'lin')
            exp_space[p] = space
            exp_names.append(p if space == 'lin' else 'log_' + p)
        ctx.goal('fit_names', list(names) == exp_names)
        ctx.goal('derived_names', list(opt.derived_names) == [d for d in orc.derived if orc.derived[d]])
        if list(names) != exp_names:
            return
        fv = opt.fit_values
        fb = opt.fit_boundaries
        u = ctx.real('u', ge=0, le=1, hint=(0.1, 0.9))
        for i, p in enumerate(fitted):
            pri = opt.fitting_priors[i]
            val = orc.values[p]
            if exp_space[p] == 'lin':
                ctx.goal('value_in_prior_space[%s]' % p, ctx.eq(fv[i], val))
            else:
                ctx.goal('value_in_prior_space[%s]' % p, ctx.eq(fv[i], ctx.log10(val)))
            ctx.goal('prior_mode[%s]' % p, pri.priorMode is (PriorMode.LINEAR if exp_space[p] == 'lin' else PriorMode.LOG))
            if p in orc.prior:
                _, y1, y2 = orc.prior[p]
                lo = ctx.ite(ctx.le_strict(y1, y2), y1, y2)
                hi = ctx.ite(ctx.le_strict(y1, y2), y2, y1)
            else:
                b1, b2 = orc.bounds[p]
                if exp_space[p] == 'log':
                    b1, b2 = _lg(ctx, b1), _lg(ctx, b2)
                lo = ctx.ite(ctx.le_strict(b1, b2), b1, b2)
                hi = ctx.ite(ctx.le_strict(b1, b2), b2, b1)
                # reported boundaries (default prior): the current bounds in the space of the mode
                ctx.goal('fit_boundaries[%s]' % p, ctx.and_(ctx.eq(fb[i][0], b1), ctx.eq(fb[i][1], b2)))
            plo, phi = pri.boundaries()
            ctx.goal('prior_from_current_settings[%s]' % p, ctx.and_(ctx.eq(plo, lo), ctx.eq(phi, hi), ctx.eq(pri.sample(u), lo + (hi - lo) * u)))
        # writing the reported values back changes nothing
        before = dict(a=model.p[0], b=model.p[1], c=model.p[2], obs_scale=obs._scale)
        opt.update_model(list(fv))
        after = dict(a=model.p[0], b=model.p[1], c=model.p[2], obs_scale=obs._scale)
        if ctx.sym:
            for p in fitted:
                ctx.exp10(ctx.log10(before[p]))
        for p in PARAMS:
            ctx.goal('roundtrip[%s]' % p, ctx.eq(after[p], before[p]))
        # wrong length -> ValueError ; unknown name -> an exception
        try:
            opt.update_model(list(fv) + [1.0])
            ctx.goal('wrong_length_rejected', False)
        except ValueError:
            ctx.goal('wrong_length_rejected', True)
        for meth, args in (('enable_fit', ('no_such_parameter',)), ('set_boundary', ('no_such_parameter', [1.0, 2.0])),
                           ('set_prior', ('no_such_parameter', Uniform(bounds=[1.0, 2.0])))):
            try:
                getattr(opt, meth)(*args)
                ctx.goal('unknown_name_is_error[%s]' % meth, False)
            except Exception:
                ctx.goal('unknown_name_is_error[%s]' % meth, True)
