"""C12 -- temperature profiles are finite, positive and bounded by their control values."""
import numpy as np

from symx.harness import harness
from .common import patched
from . import stubs

FUNCS = ['taurex.data.profiles.temperature.isothermal:Isothermal.profile',
         'taurex.data.profiles.temperature.npoint:NPoint.profile', 'taurex.data.profiles.temperature.npoint:NPoint.check_profile',
         'taurex.data.profiles.temperature.rodgers:Rodgers2000.gen_covariance',
         'taurex.data.profiles.temperature.rodgers:Rodgers2000.correlate_temp', 'taurex.data.profiles.temperature.rodgers:Rodgers2000.profile',
         'taurex.data.profiles.temperature.temparray:TemperatureArray.profile', 'taurex.data.profiles.temperature.temparray:TemperatureArray.__init__',
         'taurex.data.profiles.temperature.guillot:Guillot2010.profile', 'taurex.data.profiles.temperature.guillot:Guillot2010._check_values',
         'taurex.util.util:movingaverage']
STUBS = ['np.interp -> piecewise-linear clamped contract', 'scipy.interpolate.interp1d -> sorted piecewise-linear with fill values',
         'scipy.special.expn(2,.) -> UF E2', 'exp/ln/log10/pow: UF with monotonicity, positivity, ln(a/b)=-ln(b/a) instances']


def _pressures(ctx, n):
    P = ctx.reals('P', n, gt=0)
    for i in range(n - 1):
        ctx.assume(P[i] > P[i + 1])
    return P


def _range_goals(ctx, prof, ctl, n, tag='range'):
    ctx.goal('len', len(prof) == n)
    if len(prof) != n:
        return
    for l in range(n):
        v = prof[l]
        if isinstance(v, float) and v != v:
            ctx.goal('%s[%d]' % (tag, l), False)
            continue
        ctx.goal('%s[%d]' % (tag, l), ctx.and_(ctx.or_([ctx.le(c, v) for c in ctl]), ctx.or_([ctx.le(v, c) for c in ctl])))
        ctx.goal('positive[%d]' % l, ctx.lt(0.0, v))


@harness('C12', 'isothermal', quick=[dict(n=3)], thorough=[dict(n=2), dict(n=12)], functions=FUNCS)
def isothermal(ctx, n):
    """Real Isothermal.profile: N entries, all equal to the given temperature."""
    from taurex.data.profiles.temperature import Isothermal
    T = ctx.real('T', gt=0)
    P = _pressures(ctx, n)
    iso = Isothermal(T=T)
    iso.initialize_profile(None, n, P)
    prof = iso.profile
    ctx.goal('len', len(prof) == n)
    for l in range(n):
        ctx.goal('const[%d]' % l, ctx.eq(prof[l], T))


@harness('C12', 'npoint',
         quick=[dict(n=2, k=0), dict(n=3, k=0), dict(n=4, k=1, _shards=4), dict(n=12, k=0, pinned=True),
                dict(n=6, k=0, window=50), dict(n=5, k=1, window=60, pinned=True)],
         thorough=[dict(n=2, k=0), dict(n=4, k=0), dict(n=6, k=0, _shards=4), dict(n=4, k=1, _shards=4), dict(n=6, k=1, _shards=8),
                   dict(n=4, k=2, _shards=8), dict(n=12, k=0, pinned=True), dict(n=20, k=1, pinned=True), dict(n=30, k=0, pinned=True),
                   dict(n=3, k=0, slope=True), dict(n=4, k=1, slope=True, _shards=4),
                   dict(n=6, k=0, window=50), dict(n=8, k=1, window=40, pinned=True), dict(n=10, k=0, window=100), dict(n=7, k=2, window=45, pinned=True)],
         covers=['valid', 'rejected_inverted'], functions=FUNCS, stubs=STUBS, shard_depth=3, max_paths=50000,
         outside=['layer counts / node counts beyond those listed'])
def npoint(ctx, n, k, pinned=False, slope=False, window=10):
    """Real NPoint.profile/check_profile (+movingaverage) on symbolic decreasing layer pressures, symbolic node
    temperatures (>0) and node pressures: a valid node set gives N values inside [min,max] of the node
    temperatures, equal nodes give that constant; inverted pressure nodes (or |slope| >= limit) raise
    InvalidTemperatureException; no other exception, no NaN."""
    from taurex.data.profiles.temperature.npoint import NPoint, InvalidTemperatureException
    P = _pressures(ctx, n)
    Ts = ctx.real('T_surface', gt=0)
    Tt = ctx.real('T_top', gt=0)
    tp = [ctx.real('T_node_%d' % i, gt=0) for i in range(k)]
    pp = [ctx.real('P_node_%d' % i, gt=0) for i in range(k)]
    limit = ctx.real('limit', gt=0) if slope else 9999999
    if pinned:
        # larger layer counts: nodes pinned strictly inside layer gaps so the interpolation forks stay bounded
        for i in range(k):
            j = (i + 1) * n // (k + 1)
            ctx.assume(ctx.and_(P[j - 1] > pp[i], pp[i] > P[j]))
    npt = NPoint(T_surface=Ts, T_top=Tt, temperature_points=list(tp), pressure_points=list(pp), limit_slope=limit, smoothing_window=window)
    npt.initialize_profile(None, n, P)
    nodesP = [P[0]] + pp + [P[-1]]
    nodesT = [Ts] + tp + [Tt]
    inverted = ctx.or_([ctx.le(nodesP[i], nodesP[i + 1]) for i in range(len(nodesP) - 1)])
    def _slope(i):
        return (nodesT[i + 1] - nodesT[i]) / (ctx.log10(nodesP[i + 1]) - ctx.log10(nodesP[i]))
    try:
        prof = npt.profile
    except InvalidTemperatureException:
        ctx.cover('rejected_inverted')
        # documented rejections: an inverted pressure node, or a slope at/above the limit
        steep = ctx.or_([ctx.or_(ctx.le(limit, _slope(i)), ctx.le(_slope(i), -limit)) for i in range(len(nodesP) - 1)])
        ctx.goal('rejected_only_if_invalid', ctx.or_(inverted, steep))
        return
    except Exception as ex:
        ctx.goal('no_exception:%s' % type(ex).__name__, False)
        return
    ctx.cover('valid')
    ctx.goal('accepted_only_if_ordered', ctx.not_(inverted))
    for i in range(len(nodesP) - 1):
        ctx.goal('slope_below_limit[%d]' % i, ctx.and_(ctx.lt(_slope(i), limit), ctx.lt(-limit, _slope(i))))
    _range_goals(ctx, prof, nodesT, n)
    # equal nodes -> constant (asserted as: if all node temperatures equal c then every layer equals c)
    alleq = ctx.and_([ctx.eq(t, nodesT[0]) for t in nodesT[1:]])
    if len(prof) == n:
        for l in range(n):
            ctx.goal('const_when_equal[%d]' % l, ctx.implies(alleq, ctx.eq(prof[l], nodesT[0])))


@harness('C12', 'rodgers', quick=[dict(n=2), dict(n=3)], thorough=[dict(n=2), dict(n=3), dict(n=4), dict(n=5), dict(n=6)],
         functions=FUNCS, stubs=STUBS, outside=['user-supplied covariance matrices'])
def rodgers(ctx, n):
    """Real Rodgers2000 with the default covariance on symbolic decreasing pressures, correlation length >0 and
    layer temperatures >0: smoothing weights are >=0 and sum to one per layer, so every output is inside
    [min,max] of the layer temperatures and a constant profile is preserved."""
    from taurex.data.profiles.temperature.rodgers import Rodgers2000
    P = _pressures(ctx, n)
    T = ctx.reals('T', n, gt=0)
    h = ctx.real('h', gt=0)
    r = Rodgers2000(temperature_layers=list(T), correlation_length=h)
    r.initialize_profile(None, n, P)
    prof = r.profile
    _range_goals(ctx, prof, list(T), n)
    alleq = ctx.and_([ctx.eq(t, T[0]) for t in T[1:]])
    for l in range(n):
        ctx.goal('const_when_equal[%d]' % l, ctx.implies(alleq, ctx.eq(prof[l], T[0])))


@harness('C12', 'temparray',
         quick=[dict(n=3, m=2, pp=False), dict(n=2, m=3, pp=False), dict(n=3, m=3, pp=False), dict(n=3, m=2, pp=True, _shards=4)],
         thorough=[dict(n=6, m=3, pp=False), dict(n=12, m=2, pp=False), dict(n=3, m=6, pp=False), dict(n=4, m=3, pp=True, _shards=8),
                   dict(n=3, m=2, pp=True, rev=True, _shards=4), dict(n=5, m=2, pp=True, _shards=8)],
         functions=FUNCS, stubs=STUBS, shard_depth=3, outside=['TemperatureFile (text I/O)'])
def temparray(ctx, n, m, pp, rev=False):
    """Real TemperatureArray.profile, both branches (index interpolation; interp1d in log10 P with fill values):
    N entries inside [min,max] of the control temperatures."""
    import taurex.data.profiles.temperature.temparray as ta
    P = _pressures(ctx, n)
    T = [ctx.real('Tc_%d' % i, gt=0) for i in range(m)]
    if pp:
        Pc = [ctx.real('Pc_%d' % i, gt=0) for i in range(m)]
        for i in range(m - 1):
            ctx.assume(Pc[i] > Pc[i + 1])
        env = patched(ta, interp1d=stubs.Interp1dModel) if ctx.sym else patched(ta)
        with env:
            t = ta.TemperatureArray(tp_array=list(T), p_points=list(Pc), reverse=rev)
            t.initialize_profile(None, n, P)
            prof = t.profile
    else:
        t = ta.TemperatureArray(tp_array=list(T), reverse=rev)
        t.initialize_profile(None, n, P)
        prof = t.profile
    _range_goals(ctx, prof, T, n)


@harness('C12', 'guillot', quick=[dict(n=2), dict(n=2, invalid=True)], thorough=[dict(n=2), dict(n=4), dict(n=2, invalid=True)],
         covers=[], functions=FUNCS, stubs=STUBS,
         outside=['positivity of T^4 for arbitrary parameters (E2 is uninterpreted)'])
def guillot(ctx, n, invalid=False):
    """Real Guillot2010.profile/_check_values with symbolic parameters: T^4 equals the published closed form
    (Guillot 2010 eq. 49 / Line 2012 eq. 19) written independently; kappa_ir=0, gamma=0, T_irr<0, T_int<0 are
    rejected with InvalidModelException."""
    import scipy.special as spe
    import taurex.data.planet as pl
    from taurex.data.profiles.temperature.guillot import Guillot2010
    from taurex.exceptions import InvalidModelException
    P = _pressures(ctx, n)
    Tirr, kir, kv1, kv2, al, Tint = (ctx.real(x) for x in ('T_irr', 'kappa_ir', 'kappa_v1', 'kappa_v2', 'alpha', 'T_int'))
    grav = ctx.real('g', gt=0)
    planet = pl.Planet()
    type(planet).gravity  # real property is replaced by a value on a subclass instance below

    class _P(object):
        gravity = grav
    g = Guillot2010()
    g.T_irr, g.kappa_ir, g.kappa_v1, g.kappa_v2, g.alpha, g.T_int = Tirr, kir, kv1, kv2, al, Tint
    g.initialize_profile(_P(), n, P)
    bad = ctx.or_(ctx.eq(kir, 0.0), ctx.eq(kv1, 0.0), ctx.eq(kv2, 0.0), ctx.lt(Tirr, 0.0), ctx.lt(Tint, 0.0))
    env = patched(spe, expn=stubs.expn_model) if ctx.sym else patched(spe)
    with env:
        try:
            prof = g.profile
        except InvalidModelException:
            ctx.goal('rejected_only_if_unphysical', bad)
            return
    ctx.goal('accepted_only_if_physical', ctx.not_(bad))
    if invalid:
        return
    ctx.goal('len', len(prof) == n)
    for l in range(n):
        tau = kir * P[l] / grav

        def eta(gam):
            gt = gam * tau
            e2 = stubs.expn_model(2, gt) if ctx.sym else spe.expn(2, gt)
            return 2.0 / 3.0 + 2.0 / (3.0 * gam) * (1.0 + (gt / 2.0 - 1.0) * ctx.exp(-gt)) + \
                2.0 * gam / 3.0 * (1.0 - tau * tau / 2.0) * e2
        T4 = 0.75 * Tint ** 4 * (2.0 / 3.0 + tau) + 0.75 * Tirr ** 4 * (1.0 - al) * eta(kv1 / kir) + \
            0.75 * Tirr ** 4 * al * eta(kv2 / kir)
        if ctx.sym:
            ctx.goal('closed_form[%d]' % l, ctx.eq(prof[l], T4 ** 0.25))
        else:
            ctx.goal('closed_form[%d]' % l, ctx.eq(prof[l] ** 4, T4, scale=abs(T4)))
