"""C20 -- correlated-k reduces to cross-sections when the k-distribution is degenerate."""
import math

import numpy as np

from symx.harness import harness
from symx.core import UF, Sym
from .common import state_model, oarr, patched
from .c01 import _atmosphere
from .c02 import _bb_stub, _B

FUNCS = ['taurex.contributions.absorption:contribute_ktau', 'taurex.contributions.absorption:AbsorptionContribution.contribute',
         'taurex.model.emission:EmissionModel.evaluate_emission_ktables', 'taurex.model.emission:contribute_ktau_emission',
         'taurex.model.emission:EmissionModel.evaluate_emission', 'taurex.model.transmission:TransmissionModel.path_integral',
         'taurex.contributions.contribution:contribute_tau', 'taurex.util.util:compute_dz']
STUBS = ['exp/ln: UF with positivity, monotonicity, ln(t)=a whenever t=exp(a), tangent-line instances exp(y)>=exp(x)(1+y-x) at '
         'x = -sum w tau for the Jensen clause', 'black_body -> UF B(nu,T)', 'GlobalCache opacity_method switched by the harness',
         'AbsorptionContribution state (weighted k-coefficients, weights) constructed directly']


def _absorption(sigma, weights=None):
    """a real AbsorptionContribution (exact type: the k-table emission path selects it by type) whose prepared
    state is set directly"""
    from taurex.contributions import AbsorptionContribution
    a = AbsorptionContribution()

    def prepare(model, wngrid):
        a._nlayers, a._ngrid = model.nLayers, wngrid.shape[0]
    a.prepare = prepare
    a._use_ktables = weights is not None
    a.sigma_xsec = sigma
    a.weights = weights
    return a


def _weights(ctx, ng):
    w = ctx.reals('w', ng, ge=0, hint=(0.05, 1))
    ctx.assume(ctx.eq(sum(w[1:], w[0]), 1.0))
    return w


def _ktable(ctx, s, ng, degenerate, n, nw):
    k = np.empty((n, nw, ng), dtype=object if ctx.sym else float)
    for l in range(n):
        for v in range(nw):
            for g in range(ng):
                k[l, v, g] = s[l, v] if degenerate else ctx.real('k_%d_%d_%d' % (l, v, g), ge=0, hint=(0, 5))
    return k


@harness('C20', 'transmission',
         quick=[dict(n=2, nw=1, ng=2, degenerate=True), dict(n=2, nw=2, ng=2, degenerate=True, _shards=2),
                dict(n=2, nw=1, ng=2, degenerate=False), dict(n=2, nw=1, ng=3, degenerate=True)],
         thorough=[dict(n=3, nw=2, ng=2, degenerate=True, _shards=4), dict(n=3, nw=1, ng=3, degenerate=True),
                   dict(n=3, nw=1, ng=2, degenerate=False)],
         functions=FUNCS, stubs=STUBS, shard_depth=3, outside=['counts beyond those listed', 'NEMESIS tables'])
def transmission(ctx, n, nw, ng, degenerate):
    """Real AbsorptionContribution.contribute -> contribute_ktau inside the real transmission path_integral.
    degenerate: k identical across quadrature points, any weights >=0 summing to 1 => optical depth and transit
    depth equal the cross-section run with the same numbers.  general: per layer the transmittance
    T = sum_g w_g exp(-tau_g) is in [0,1] and >= exp(-sum_g w_g tau_g)."""
    from taurex.model import TransmissionModel
    Rp, Rs, dz, z, rho = _atmosphere(ctx, n)
    wn = np.arange(1, nw + 1) * 100.0
    dl = [oarr([ctx.real('dl_%d_%d' % (l, k), ge=0, hint=(0, 3)) for k in range(n - l)], ctx.sym) for l in range(n)]
    s = ctx.array('s', (n, nw), ge=0, hint=(0, 5))
    w = _weights(ctx, ng)
    k = _ktable(ctx, s, ng, degenerate, n, nw)

    def run(contrib):
        tm = state_model(TransmissionModel, n, wn, Rp, Rs, z, dz, rho)
        tm.add_contribution(contrib)
        tm.compute_path_length_old = lambda _dz: dl
        rec = {}
        real_ca = tm.compute_absorption

        def spy(tau, _dz):
            rec['tau'] = tau.copy()
            return real_ca(tau, _dz)
        tm.compute_absorption = spy
        contrib.prepare(tm, wn)
        depth, trans = tm.path_integral(wn, False)
        return depth, trans, rec['tau']
    dk, tk, tauk = run(_absorption(k, w))
    if degenerate:
        dx, tx, taux = run(_absorption(s))
        for l in range(n):
            for v in range(nw):
                ctx.goal('tau_equal[%d,%d]' % (l, v), ctx.eq(tauk[l, v], taux[l, v]))
        for v in range(nw):
            ctx.goal('depth_equal[%d]' % v, ctx.eq(dk[v], dx[v]))
        return
    for l in range(n):
        for v in range(nw):
            taug = []
            for g in range(ng):
                t = 0.0
                for kk in range(n - l):
                    t = t + k[kk + l, v, g] * rho[kk + l] * dl[l][kk]
                taug.append(t)
            mean_tau = sum((w[g] * taug[g] for g in range(1, ng)), w[0] * taug[0])
            T = sum((w[g] * ctx.exp(-taug[g]) for g in range(1, ng)), w[0] * ctx.exp(-taug[0]))
            ref = ctx.exp(-mean_tau)
            if ctx.sym:
                for g in range(ng):       # tangent lines of exp at -mean_tau (convexity): true facts
                    eg = ctx.exp(-taug[g])
                    ctx.lemma(eg.t >= ref.t * (1 + (-(taug[g].t if isinstance(taug[g], Sym) else taug[g])) - (-(mean_tau.t))))
            ctx.goal('weighted_average[%d,%d]' % (l, v), ctx.eq(tk[l, v], T))
            ctx.goal('in_unit_interval[%d,%d]' % (l, v), ctx.and_(ctx.le(0.0, tk[l, v]), ctx.le(tk[l, v], 1.0)))
            ctx.goal('jensen[%d,%d]' % (l, v), ctx.le(ref, tk[l, v]))


@harness('C20', 'emission',
         quick=[dict(n=2, nw=1, ng=2, nq=1), dict(n=2, nw=1, ng=2, nq=2, _shards=2), dict(n=3, nw=1, ng=2, nq=1, _shards=2)],
         thorough=[dict(n=2, nw=2, ng=2, nq=2, _shards=4), dict(n=3, nw=1, ng=2, nq=2, _shards=4), dict(n=3, nw=2, ng=2, nq=1, _shards=8)],
         covers=['unclamped', 'clamped'], functions=FUNCS,
         stubs=STUBS + ['real Gauss-Legendre nodes (concrete)'], shard_depth=3,
         outside=['counts beyond those listed', 'mixed molecular + non-molecular contributions in k-table mode'])
def emission(ctx, n, nw, ng, nq):
    """Real EmissionModel.evaluate_emission_ktables (+contribute_ktau_emission, contribute_ktau) vs real
    evaluate_emission on the same atmosphere (unequal layer thicknesses) with degenerate k-tables: identical
    intensities whenever no layer is clamped in the cross-section run, and within exp(-10) sum_l B_l/pi otherwise
    (the cross-section path clamps saturated layers, the k-table path does not)."""
    from taurex.model import EmissionModel
    import taurex.model.emission as em
    import taurex.data.stellar.star as st
    from taurex.cache import GlobalCache
    Rp, Rs, dz, z, rho = _atmosphere(ctx, n)
    T = ctx.reals('T', n, gt=0, hint=(300, 3000))
    wn = np.arange(1, nw + 1) * 1000.0
    s = ctx.array('s', (n, nw), ge=0, hint=(0, 5))
    w = _weights(ctx, ng)
    k = _ktable(ctx, s, ng, True, n, nw)
    envs = [patched(em, black_body=_bb_stub), patched(st, black_body=_bb_stub)] if ctx.sym else []
    for e in envs:
        e.__enter__()
    old = GlobalCache()['opacity_method']
    try:
        def run(contrib, method):
            GlobalCache()['opacity_method'] = method
            m = state_model(EmissionModel, n, wn, Rp, Rs, z, dz, rho, T=T, Tstar=5000.0, ngauss=nq)
            m.add_contribution(contrib)
            contrib.prepare(m, wn)
            I, _mu, _w, _ = m.evaluate_emission(wn, False)
            return I
        Ik = run(_absorption(k, w), 'ktables')
        Ix = run(_absorption(s), 'xsec')
    finally:
        GlobalCache()['opacity_method'] = old
        for e in reversed(envs):
            e.__exit__(None, None, None)
    ctx.goal('shapes', np.shape(Ik) == np.shape(Ix) == (nq, nw))
    # vertical optical depth above the bottom of each layer (for the clamp licence)
    tau0 = [[sum((s[l2, v] * rho[l2] * dz[l2] for l2 in range(l + 1, n)), s[l, v] * rho[l] * dz[l]) for v in range(nw)] for l in range(n)]
    clamped_any = ctx.or_([ctx.and_([ctx.le(10.0, tau0[l][v]) for v in range(nw)]) for l in range(n)])
    ctx.cover_if('clamped', clamped_any)
    ctx.cover_if('unclamped', ctx.not_(clamped_any))
    E10 = ctx.exp(-10.0)
    for q in range(nq):
        for v in range(nw):
            slack = sum((_B(ctx, wn[v], T[l]) / math.pi for l in range(1, n)), _B(ctx, wn[v], T[0]) / math.pi) * E10
            ctx.goal('intensity_equal[%d,%d]' % (q, v), ctx.or_(ctx.eq(Ik[q, v], Ix[q, v], scale=None if ctx.sym else 1e-30), clamped_any))
            ctx.goal('intensity_within_cutoff[%d,%d]' % (q, v), ctx.and_(ctx.le(Ix[q, v] - slack, Ik[q, v], scale=None if ctx.sym else 1e-30),
                                                                      ctx.le(Ik[q, v], Ix[q, v] + slack, scale=None if ctx.sym else 1e-30)))


@harness('C20', 'prepare_ktables', quick=[dict(n=2, nw=1, ng=2)], thorough=[dict(n=2, nw=2, ng=2, _shards=8), dict(n=2, nw=1, ng=3, _shards=4)],
         functions=FUNCS + ['taurex.contributions.absorption:AbsorptionContribution.prepare_each', 'taurex.contributions.absorption:AbsorptionContribution.prepare'],
         stubs=STUBS + ['KTableCache()[gas] -> k-table double (symbolic coefficients and weights)', 'chemistry double'],
         outside=['more than one active gas in k-table mode (weights are taken from the first)'])
def prepare_ktables(ctx, n, nw, ng):
    """Real AbsorptionContribution.prepare in k-table mode against a k-table cache double, run TWICE on the same object
    with the loaded tables replaced in between (same number of quadrature points, different weights and
    coefficients): after each run the prepared coefficients are k x mixing ratio and the quadrature weights are those
    of the tables CURRENTLY loaded; the layer transmittance computed by the real contribute_ktau with them is the
    weighted average of exponentials."""
    import taurex.contributions.absorption as ab
    from taurex.cache import GlobalCache
    from taurex.model import TransmissionModel
    from .c03 import _Chem, _Cache
    Tl = [1000.0 + l for l in range(n)]
    mix = {'H2O': ctx.reals('mix', n, gt=0, hint=(0.01, 1))}
    wn = np.arange(1, nw + 1) * 100.0

    class _KT(object):
        def __init__(self, tag):
            self.k = ctx.array('k%s' % tag, (n, nw, ng), ge=0, hint=(0, 5))
            self.weights = _weights_named(ctx, ng, 'w%s' % tag)

        def opacity(self, T, P, wngrid=None):
            return self.k[Tl.index(float(T))].copy()
    t1, t2 = _KT('a'), _KT('b')
    cache = _Cache({'H2O': t1})

    class _Model(object):
        nLayers = n
        chemistry = _Chem(['H2O'], [], mix)
        temperatureProfile = np.array(Tl)
        pressureProfile = np.logspace(5, 0, n)
    old = GlobalCache()['opacity_method']
    GlobalCache()['opacity_method'] = 'ktables'
    try:
        with patched(ab, OpacityCache=cache, KTableCache=cache):
            a = ab.AbsorptionContribution()
            out = []
            for t in (t1, t2):
                cache.d['H2O'] = t
                a.prepare(_Model(), wn)
                out.append((np.array(a.sigma_xsec, dtype=object if ctx.sym else float).copy(), list(a.weights)))
    finally:
        GlobalCache()['opacity_method'] = old
    for r, t in enumerate((t1, t2)):
        sig, wts = out[r]
        ctx.goal('shape[%d]' % r, np.shape(sig) == (n, nw, ng) and len(wts) == ng)
        for g in range(ng):
            ctx.goal('weights_current[%d,%d]' % (r, g), ctx.eq(wts[g], t.weights[g]))
        for idx in np.ndindex((n, nw, ng)):
            ctx.goal('coefficients[%d,%s]' % (r, ','.join(map(str, idx))), ctx.eq(sig[idx], t.k[idx] * mix['H2O'][idx[0]]))


def _weights_named(ctx, ng, name):
    w = ctx.reals(name, ng, ge=0, hint=(0.05, 1))
    ctx.assume(ctx.eq(sum(w[1:], w[0]), 1.0))
    return w


@harness('C20', 'regrid', quick=[dict(nn=3, nr=2, ng=2, _shards=4)], thorough=[dict(nn=4, nr=2, ng=2, _shards=8), dict(nn=3, nr=2, ng=3, _shards=8)],
         functions=FUNCS + ['taurex.opacity.ktables.ktable:KTable.opacity', 'taurex.opacity.opacity:Opacity.opacity'],
         stubs=STUBS + ['scipy.interpolate.interp1d -> sorted piecewise-linear with fill values', 'np.interp -> numpy-exact contract'],
         shard_depth=4, outside=['requested ranges selecting fewer than two native points'])
def regrid(ctx, nn, nr, ng):
    """Degenerate k-table vs cross-section on a requested grid that is NOT the native one: real KTable.opacity (interp1d
    path) and real Opacity.opacity (np.interp path) over the same symbolic native grid, requested grid and column: the
    k-table returns, at every quadrature point, exactly what the cross-section path returns (including points of the
    requested grid beyond the selected native range, where both clamp to the nearest selected node)."""
    import scipy.interpolate as si
    from . import stubs
    from .c13 import _opacity_double
    native = ctx.increasing('nat', nn, gt=0)
    col = ctx.reals('s', nn, ge=0, hint=(0, 5))
    req = ctx.increasing('req', nr, gt=0)
    ctx.assume(ctx.and_(ctx.le(req[0], native[1]), ctx.le(native[nn - 2], req[nr - 1])))
    kcol = np.empty((nn, ng), dtype=object if ctx.sym else float)
    for i in range(nn):
        for g in range(ng):
            kcol[i, g] = col[i]
    ox = _opacity_double(ctx, native, col, 0)
    ok = _opacity_double(ctx, native, kcol, ng)
    env = patched(si, interp1d=stubs.Interp1dModel) if ctx.sym else patched(si)
    with env:
        rx = np.asarray(ox.opacity(1000.0, 1e4, req))
        rk = np.asarray(ok.opacity(1000.0, 1e4, req))
    ctx.goal('shapes', rx.shape == (nr,) and rk.shape == (nr, ng))
    if rx.shape != (nr,) or rk.shape != (nr, ng):
        return
    for i in range(nr):
        for g in range(ng):
            ctx.goal('same_as_cross_section[%d,%d]' % (i, g), ctx.eq(rk[i, g], rx[i]))
