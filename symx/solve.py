"""symx.solve -- discharge one proof obligation with a fresh solver (portfolio)."""
import time

import z3

STATS = dict(queries=0, unsat=0, sat=0, unknown=0, solver_s=0.0, by_strategy={},
             xcheck=0, xcheck_agree=0, xcheck_unknown=0, xcheck_contradict=0)


def _uf_abstract(terms):
    """Replace every UF application by a fresh Real, adding pairwise congruence
    instances.  Sound for unsat (the abstraction only forgets facts)."""
    cache = {}
    apps = {}
    fresh = [0]

    def walk(t):
        k = t.get_id()
        if k in cache:
            return cache[k]
        if z3.is_app(t):
            kids = [walk(c) for c in t.children()]
            d = t.decl()
            if d.kind() == z3.Z3_OP_UNINTERPRETED and d.arity() > 0:
                fresh[0] += 1
                v = z3.Real('uf!%s!%d' % (d.name(), fresh[0]))
                apps.setdefault(d.name(), []).append((kids, v))
                r = v
            elif kids:
                r = d(*kids)
            else:
                r = t
        else:
            r = t
        cache[k] = r
        return r

    out = [walk(t) for t in terms]
    cong = []
    for name, lst in apps.items():
        for i in range(len(lst)):
            for j in range(i + 1, len(lst)):
                ai, vi = lst[i]
                aj, vj = lst[j]
                cong.append(z3.Implies(z3.And(*[x == y for x, y in zip(ai, aj)]), vi == vj))
    return out + cong


def _has_uf(terms):
    seen = set()
    stack = list(terms)
    while stack:
        t = stack.pop()
        k = t.get_id()
        if k in seen:
            continue
        seen.add(k)
        if z3.is_app(t):
            d = t.decl()
            if d.kind() == z3.Z3_OP_UNINTERPRETED and d.arity() > 0:
                return True
            stack.extend(t.children())
    return False


def _run_z3(assertions, timeout_ms, tactic=None):
    if tactic is None:
        s = z3.Solver()
    else:
        s = tactic.solver()
    s.set('timeout', int(timeout_ms))
    for a in assertions:
        s.add(a)
    try:
        r = s.check()
    except z3.Z3Exception:
        return 'unknown', None
    if r == z3.sat:
        try:
            return 'sat', s.model()
        except z3.Z3Exception:
            return 'unknown', None
    if r == z3.unsat:
        return 'unsat', None
    return 'unknown', None


def _run_cvc5(assertions, timeout_ms):
    """cvc5 1.4 wheel in a child process (hard timeout)."""
    import os
    import subprocess
    import sys
    import tempfile
    s = z3.Solver()
    for a in assertions:
        s.add(a)
    txt = s.to_smt2()
    fd, path = tempfile.mkstemp(suffix='.smt2', prefix='symx_')
    try:
        with os.fdopen(fd, 'w') as f:
            f.write(txt)
        try:
            p = subprocess.run([sys.executable, os.path.join(os.path.dirname(__file__), 'cvc5run.py'),
                                path, str(int(timeout_ms))], capture_output=True, text=True,
                               timeout=timeout_ms / 1000.0 + 5)
        except subprocess.TimeoutExpired:
            return 'unknown', None
        for line in p.stdout.splitlines():
            if line.startswith('RESULT '):
                return line.split()[1], None
        return 'unknown', None
    finally:
        try:
            os.remove(path)
        except OSError:
            pass


def hard_call(fn, timeout_s):
    """run fn() in a forked child (shares the z3 terms copy-on-write); hard-kill after timeout_s.
    -> fn's (picklable) result, or None on timeout/crash.  z3's own timeout is cooperative and is
    occasionally ignored inside long arithmetic subroutines; a check that hangs is worse than 'unknown'."""
    import os
    import pickle
    import select
    import signal
    r, w = os.pipe()
    pid = os.fork()
    if pid == 0:
        code = 0
        try:
            os.close(r)
            res = fn()
            data = pickle.dumps(res)
            with os.fdopen(w, 'wb') as f:
                f.write(data)
        except BaseException:
            code = 1
        finally:
            os._exit(code)
    os.close(w)
    data = b''
    deadline = time.time() + timeout_s
    try:
        while True:
            left = deadline - time.time()
            if left <= 0:
                break
            rl, _, _ = select.select([r], [], [], min(left, 1.0))
            if rl:
                chunk = os.read(r, 1 << 16)
                if not chunk:
                    break
                data += chunk
    finally:
        os.close(r)
        try:
            os.kill(pid, signal.SIGKILL)
        except OSError:
            pass
        try:
            os.waitpid(pid, 0)
        except OSError:
            pass
    if not data:
        return None
    try:
        return pickle.loads(data)
    except Exception:
        return None


PREF = {}


def prove_isolated(assumptions, goal, timeout_s, extract, hints=(), key=None):
    """prove() in a hard-killable child.  extract(model) -> picklable description of a counterexample."""
    def work():
        r, m = prove(assumptions, goal, timeout_s=timeout_s, prefer=PREF.get(key))
        info = None
        if r == 'sat':
            if hints:
                r2, m2 = _run_z3(list(assumptions) + list(hints) + [z3.Not(goal)], 5000)
                if r2 == 'sat':
                    m = m2
            info = extract(m)
        return r, info, {k: STATS[k] for k in ('solver_s', 'by_strategy')}, STATS.get('last_used')
    before = dict(STATS['by_strategy'])
    t0 = time.time()
    res = hard_call(work, timeout_s * 1.5 + 15)
    STATS['queries'] += 1
    if res is None:
        STATS['unknown'] += 1
        STATS['solver_s'] += time.time() - t0
        STATS['by_strategy']['hard-timeout'] = STATS['by_strategy'].get('hard-timeout', 0) + 1
        return 'unknown', None
    r, info, st, used = res
    if key is not None and r == 'unsat' and used:
        PREF[key] = used
    STATS[r] += 1
    STATS['solver_s'] += time.time() - t0
    for k, v in st['by_strategy'].items():
        d = v - before.get(k, 0)
        if d > 0:
            STATS['by_strategy'][k] = STATS['by_strategy'].get(k, 0) + d
    return r, info


def prove(assumptions, goal, timeout_s=20.0, want_model=True, prefer=None):
    """-> ('unsat', None) goal holds | ('sat', model) counterexample | ('unknown', None)"""
    t0 = time.time()
    neg = z3.Not(goal)
    base = list(assumptions) + [neg]
    STATS['queries'] += 1
    result, model, used = 'unknown', None, None
    has_uf = _has_uf(base)
    budget = timeout_s * 1000
    strategies = []
    if has_uf:
        strategies.append(('z3-default', lambda: _run_z3(base, budget * 0.1)))
        strategies.append(('z3-nlsat-ufabs', lambda: _nl_abs(base, budget * 0.35)))
    else:
        strategies.append(('z3-nlsat', lambda: _run_z3(base, budget * 0.35, _nlsat_tactic())))
        strategies.append(('z3-default', lambda: _run_z3(base, budget * 0.1)))
    strategies.append(('cvc5', lambda: _run_cvc5(base, budget * 0.2)))
    strategies.append(('z3-default-long', lambda: _run_z3(base, budget * 0.35)))
    if prefer:
        strategies.sort(key=lambda nf: 0 if nf[0] == prefer else 1)
    for name, f in strategies:
        r, m = f()
        if r == 'unsat':
            result, used = 'unsat', name
            break
        if r == 'sat':
            if m is None:
                # cvc5 or abstraction said sat: abstraction-sat is not trustworthy; cvc5-sat has
                # no z3 model -> try to get a model from z3 with more time
                if name == 'cvc5':
                    r2, m2 = _run_z3(base, budget)
                    if r2 == 'sat':
                        result, model, used = 'sat', m2, 'cvc5+z3model'
                        break
                continue
            result, model, used = 'sat', m, name
            break
    dt = time.time() - t0
    STATS['solver_s'] += dt
    STATS[result] += 1
    STATS['last_used'] = used
    STATS['by_strategy'][used or 'none'] = STATS['by_strategy'].get(used or 'none', 0) + 1
    return result, model


def _nlsat_tactic():
    return z3.Then('simplify', 'purify-arith', 'propagate-values', 'solve-eqs', 'qfnra-nlsat')


def _nl_abs(base, timeout_ms):
    ab = _uf_abstract(base)
    r, m = _run_z3(ab, timeout_ms, _nlsat_tactic())
    if r == 'unsat':
        return 'unsat', None
    return 'unknown', None     # sat under abstraction proves nothing


def cross_check(assumptions, goal, timeout_s=10.0):
    """re-run an unsat query on cvc5; returns 'agree' | 'unknown' | 'contradict'"""
    STATS['xcheck'] += 1
    r, _ = _run_cvc5(list(assumptions) + [z3.Not(goal)], timeout_s * 1000)
    if r == 'unsat':
        STATS['xcheck_agree'] += 1
        return 'agree'
    if r == 'sat':
        STATS['xcheck_contradict'] += 1
        return 'contradict'
    STATS['xcheck_unknown'] += 1
    return 'unknown'
