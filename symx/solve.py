"""symx.solve -- discharge one proof obligation with a fresh solver (portfolio)."""
import time

import z3

STATS = dict(queries=0, unsat=0, sat=0, unknown=0, solver_s=0.0, by_strategy={},
             xcheck=0, xcheck_agree=0, xcheck_unknown=0, xcheck_contradict=0)


def _uf_abstract(terms):
    """Replace every UF application by a fresh Real, adding pairwise congruence
    instances.  Sound for unsat (the abstraction only forgets facts)."""
    cache = {}
    apps = {}
    fresh = [0]

    def walk(t):
        k = t.get_id()
        if k in cache:
            return cache[k]
        if z3.is_app(t):
            kids = [walk(c) for c in t.children()]
            d = t.decl()
            if d.kind() == z3.Z3_OP_UNINTERPRETED and d.arity() > 0:
                fresh[0] += 1
                v = z3.Real('uf!%s!%d' % (d.name(), fresh[0]))
                apps.setdefault(d.name(), []).append((kids, v))
                r = v
            elif kids:
                r = d(*kids)
            else:
                r = t
        else:
            r = t
        cache[k] = r
        return r

    out = [walk(t) for t in terms]
    _uf_abstract.last_walk = walk
    cong = []
    for name, lst in apps.items():
        for i in range(len(lst)):
            for j in range(i + 1, len(lst)):
                ai, vi = lst[i]
                aj, vj = lst[j]
                cong.append(z3.Implies(z3.And(*[x == y for x, y in zip(ai, aj)]), vi == vj))
    return out + cong


def _has_uf(terms):
    seen = set()
    stack = list(terms)
    while stack:
        t = stack.pop()
        k = t.get_id()
        if k in seen:
            continue
        seen.add(k)
        if z3.is_app(t):
            d = t.decl()
            if d.kind() == z3.Z3_OP_UNINTERPRETED and d.arity() > 0:
                return True
            stack.extend(t.children())
    return False


def _run_z3(assertions, timeout_ms, tactic=None):
    if tactic is None:
        s = z3.Solver()
    else:
        s = tactic.solver()
    if timeout_ms is not None:
        s.set('timeout', int(timeout_ms))
    for a in assertions:
        s.add(a)
    try:
        r = s.check()
    except z3.Z3Exception:
        return 'unknown', None
    if r == z3.sat:
        try:
            return 'sat', s.model()
        except z3.Z3Exception:
            return 'unknown', None
    if r == z3.unsat:
        return 'unsat', None
    return 'unknown', None


def _run_cvc5(assertions, timeout_ms):
    """cvc5 1.4 wheel in a child process (hard timeout)."""
    import os
    import subprocess
    import sys
    import tempfile
    s = z3.Solver()
    for a in assertions:
        s.add(a)
    txt = s.to_smt2()
    fd, path = tempfile.mkstemp(suffix='.smt2', prefix='symx_')
    try:
        with os.fdopen(fd, 'w') as f:
            f.write(txt)
        try:
            p = subprocess.run([sys.executable, os.path.join(os.path.dirname(__file__), 'cvc5run.py'),
                                path, str(int(timeout_ms))], capture_output=True, text=True,
                               timeout=timeout_ms / 1000.0 + 5)
        except subprocess.TimeoutExpired:
            return 'unknown', None
        for line in p.stdout.splitlines():
            if line.startswith('RESULT '):
                return line.split()[1], None
        return 'unknown', None
    finally:
        try:
            os.remove(path)
        except OSError:
            pass


def die_with_parent():
    """Linux: deliver SIGKILL to this process when its parent exits (no orphaned solver processes)"""
    try:
        import ctypes
        import signal
        ctypes.CDLL('libc.so.6', use_errno=True).prctl(1, signal.SIGKILL)
    except Exception:
        pass


def hard_call(fn, timeout_s):
    """run fn() in a forked child (shares the z3 terms copy-on-write); hard-kill after timeout_s.
    -> fn's (picklable) result, or None on timeout/crash.  z3's own timeout is cooperative and is
    occasionally ignored inside long arithmetic subroutines; a check that hangs is worse than 'unknown'."""
    import os
    import pickle
    import select
    import signal
    r, w = os.pipe()
    pid = os.fork()
    if pid == 0:
        code = 0
        try:
            die_with_parent()
            os.setsid()             # own process group: the parent kills the group (incl. a cvc5 grandchild)
            signal.alarm(int(timeout_s) + 5)    # self-destruct if the parent is gone (SIGALRM default action)
            os.close(r)
            res = fn()
            data = pickle.dumps(res)
            with os.fdopen(w, 'wb') as f:
                f.write(data)
        except BaseException:
            code = 1
        finally:
            os._exit(code)
    os.close(w)
    data = b''
    deadline = time.time() + timeout_s
    try:
        while True:
            left = deadline - time.time()
            if left <= 0:
                break
            rl, _, _ = select.select([r], [], [], min(left, 1.0))
            if rl:
                chunk = os.read(r, 1 << 16)
                if not chunk:
                    break
                data += chunk
    finally:
        os.close(r)
        try:
            os.killpg(pid, signal.SIGKILL)
        except OSError:
            pass
        try:
            os.kill(pid, signal.SIGKILL)
        except OSError:
            pass
        try:
            os.waitpid(pid, 0)
        except OSError:
            pass
    if not data:
        return None
    try:
        return pickle.loads(data)
    except Exception:
        return None


PREF = {}


def model_values(model, inputs):
    from fractions import Fraction
    vals = {}
    if hasattr(model, 'vals'):          # PseudoModel from a solver child
        for name, var in inputs.items():
            kind, v = model.vals.get(name, ('r', '0'))
            vals[name] = v if kind != 'r' else str(Fraction(v))
        return vals
    for name, var in inputs.items():
        v = model.eval(var, model_completion=True)
        if z3.is_int_value(v):
            vals[name] = str(v.as_long())
        elif z3.is_rational_value(v):
            vals[name] = str(Fraction(v.numerator_as_long(), v.denominator_as_long()))
        elif z3.is_algebraic_value(v):
            vals[name] = repr(float(v.approx(30).as_fraction()))
        else:
            vals[name] = '0'
    return vals


def _describe(model, inputs, regions, tr=None):
    info = dict(values=model_values(model, inputs), regions=[])
    for rn, rt in regions.items():
        try:
            t = tr(rt) if tr is not None else rt
            if z3.is_true(model.eval(t, model_completion=True)):
                info['regions'].append(rn)
        except Exception:
            pass
    return info


def prove_isolated(assumptions, goal, timeout_s, inputs, regions=None, hints=(), key=None):
    """Each strategy of the portfolio runs in its own forked, hard-killable child WITHOUT a z3 timeout (z3's
    timer threads do not survive fork(); the parent enforces the time limit).
    -> ('unsat', None) | ('sat', {values, regions, via}) | ('unknown', None)"""
    regions = regions or {}
    base = list(assumptions) + [z3.Not(goal)]
    has_uf = _has_uf(base)

    def exact(tactic=None, extra=()):
        def f():
            r, m = _run_z3(base + list(extra), None, tactic)
            return r, (_describe(m, inputs, regions) if r == 'sat' else None)
        return f

    def ufabs():
        r, m = _nl_abs(base, None)
        return r, None

    def ufabs_model():
        # candidate counterexample from the UF-abstracted problem (lemma instances kept as constraints on the
        # abstract values; hints pin transcendental arguments to points fixed by lemma instances).  A candidate is
        # only ever reported after it reproduces on the real code.
        terms = base + list(hints)
        ab = _uf_abstract(terms)
        tr = _uf_abstract.last_walk
        r, m = _run_z3(ab, None, _nlsat_tactic())
        if r == 'sat':
            d = _describe(m, inputs, regions, tr)
            d['via'] = 'uf-abstraction'
            return 'sat', d
        return 'unknown', None

    def cvc5():
        r, _ = _run_cvc5(base, timeout_s * 200)
        return r, None
    strategies = []
    if has_uf:
        strategies += [('z3-default', 0.1, exact()), ('z3-nlsat-ufabs', 0.3, ufabs), ('z3-nlsat-ufabs-model', 0.15, ufabs_model)]
    else:
        strategies += [('z3-nlsat', 0.4, exact(_nlsat_tactic())), ('z3-default', 0.15, exact())]
    strategies += [('cvc5', 0.2, cvc5), ('z3-default-long', 0.25, exact())]
    pref = PREF.get(key)
    if pref:
        strategies.sort(key=lambda t: 0 if t[0] == pref else 1)
    t0 = time.time()
    STATS['queries'] += 1
    result, info, used = 'unknown', None, None
    for name, frac, f in strategies:
        res = hard_call(f, max(1.0, timeout_s * frac))
        if res is None:
            continue
        r, inf = res
        if r == 'unsat':
            result, used = 'unsat', name
            break
        if r == 'sat' and inf is not None:
            result, info, used = 'sat', inf, name
            break
        if r == 'sat' and name == 'cvc5':
            res2 = hard_call(exact(), max(2.0, timeout_s * 0.5))
            if res2 is not None and res2[0] == 'sat':
                result, info, used = 'sat', res2[1], 'cvc5+z3model'
                break
    if result == 'sat' and hints and used != 'z3-nlsat-ufabs-model':
        res3 = hard_call(exact(None, hints), 5.0)
        if res3 is not None and res3[0] == 'sat' and res3[1] is not None:
            info = res3[1]
    if key is not None and result == 'unsat' and used:
        PREF[key] = used
    STATS[result] += 1
    STATS['solver_s'] += time.time() - t0
    STATS['by_strategy'][used or 'none'] = STATS['by_strategy'].get(used or 'none', 0) + 1
    return result, info


def prove(assumptions, goal, timeout_s=20.0, want_model=True, prefer=None):
    """-> ('unsat', None) goal holds | ('sat', model) counterexample | ('unknown', None)"""
    t0 = time.time()
    neg = z3.Not(goal)
    base = list(assumptions) + [neg]
    STATS['queries'] += 1
    result, model, used = 'unknown', None, None
    has_uf = _has_uf(base)
    budget = timeout_s * 1000
    strategies = []
    if has_uf:
        strategies.append(('z3-default', lambda: _run_z3(base, budget * 0.1)))
        strategies.append(('z3-nlsat-ufabs', lambda: _nl_abs(base, budget * 0.35)))
    else:
        strategies.append(('z3-nlsat', lambda: _run_z3(base, budget * 0.35, _nlsat_tactic())))
        strategies.append(('z3-default', lambda: _run_z3(base, budget * 0.1)))
    strategies.append(('cvc5', lambda: _run_cvc5(base, budget * 0.2)))
    strategies.append(('z3-default-long', lambda: _run_z3(base, budget * 0.35)))
    if prefer:
        strategies.sort(key=lambda nf: 0 if nf[0] == prefer else 1)
    for name, f in strategies:
        r, m = f()
        if r == 'unsat':
            result, used = 'unsat', name
            break
        if r == 'sat':
            if m is None:
                # cvc5 or abstraction said sat: abstraction-sat is not trustworthy; cvc5-sat has
                # no z3 model -> try to get a model from z3 with more time
                if name == 'cvc5':
                    r2, m2 = _run_z3(base, budget)
                    if r2 == 'sat':
                        result, model, used = 'sat', m2, 'cvc5+z3model'
                        break
                continue
            result, model, used = 'sat', m, name
            break
    dt = time.time() - t0
    STATS['solver_s'] += dt
    STATS[result] += 1
    STATS['last_used'] = used
    STATS['by_strategy'][used or 'none'] = STATS['by_strategy'].get(used or 'none', 0) + 1
    return result, model


def _nlsat_tactic():
    return z3.Then('simplify', 'purify-arith', 'propagate-values', 'solve-eqs', 'qfnra-nlsat')


def _nl_abs(base, timeout_ms):
    ab = _uf_abstract(base)
    r, m = _run_z3(ab, timeout_ms, _nlsat_tactic())
    if r == 'unsat':
        return 'unsat', None
    return 'unknown', None     # sat under abstraction proves nothing


def cross_check(assumptions, goal, timeout_s=10.0):
    """re-run an unsat query on cvc5; returns 'agree' | 'unknown' | 'contradict'"""
    STATS['xcheck'] += 1
    r, _ = _run_cvc5(list(assumptions) + [z3.Not(goal)], timeout_s * 1000)
    if r == 'unsat':
        STATS['xcheck_agree'] += 1
        return 'agree'
    if r == 'sat':
        STATS['xcheck_contradict'] += 1
        return 'contradict'
    STATS['xcheck_unknown'] += 1
    return 'unknown'
