"""symx.run -- explore a harness, discharge its goals, replay counterexamples, write evidence.

usage: python -m symx.run <property id> --tier quick|thorough
       python -m symx.run --replay <file.json>
"""
import argparse
import fnmatch
import hashlib
import importlib
import inspect
import json
import os
import subprocess
import sys
import time
import traceback
from concurrent.futures import ProcessPoolExecutor, as_completed
from fractions import Fraction

VERIF = os.path.dirname(os.path.dirname(os.path.abspath(__file__)))
REPO = os.environ.get('VERIF_REPO', '/repo')
GUARD = 'TAUREX_VERIF'


def _load(prop):
    if REPO not in sys.path:
        sys.path.insert(0, REPO)
    if VERIF not in sys.path:
        sys.path.insert(0, VERIF)
    _preimport()
    importlib.import_module('props.%s' % prop.lower())
    from symx.harness import REGISTRY
    return REGISTRY.get(prop, {})


def _preimport():
    """import every taurex module once, outside the shims (astropy & co. inspect ufunc objects)"""
    import pkgutil
    import taurex
    import taurex.log
    taurex.log.disableLogging()
    import logging
    logging.disable(logging.CRITICAL)
    for m in pkgutil.walk_packages(taurex.__path__, 'taurex.'):
        if any(x in m.name for x in ('plot', 'lightcurve', 'radis', 'dypolychord', 'mixin', 'taurex.taurex')):
            continue
        try:
            importlib.import_module(m.name)
        except Exception:
            pass


def _model_values(model, inputs):
    from symx.solve import model_values
    return model_values(model, inputs)


def _model_values_old(model, inputs):
    import z3
    vals = {}
    for name, var in inputs.items():
        v = model.eval(var, model_completion=True)
        if z3.is_int_value(v):
            vals[name] = str(v.as_long())
        elif z3.is_rational_value(v):
            vals[name] = str(Fraction(v.numerator_as_long(), v.denominator_as_long()))
        elif z3.is_algebraic_value(v):
            vals[name] = repr(float(v.approx(30).as_fraction()))
        else:
            vals[name] = '0'
    return vals


def run_job(spec):
    """worker: one (harness, params, shard)"""
    os.environ['NUMBA_DISABLE_JIT'] = '1'
    os.environ[GUARD] = '1'
    try:
        import faulthandler
        import signal
        faulthandler.register(signal.SIGUSR1, all_threads=True)
    except Exception:
        pass
    t0 = time.time()
    out = dict(spec=spec, paths=0, vacuous_paths=0, aborted=0, goals=0, unsat=0, sat=0, unknown=0,
               nontrivial_paths=0, covers=[], cex=[], samples=[], errors=[], path_cap_hit=False,
               xcheck=dict(n=0, agree=0, unknown=0, contradict=0), witnesses=[], unknown_goals=[])
    try:
        import z3
        from symx import solve
        from symx.core import Engine, PathAbort, EngineError, set_engine
        from symx.harness import Ctx
        from symx.shim import shims
        reg = _load(spec['prop'])
        h = reg[spec['harness']]
        eng = Engine(feas_timeout_ms=spec.get('feas_ms', 500), shard=None, shard_depth=h.shard_depth, safe=bool(spec.get('safe')))
        set_engine(eng)
        # work list: decision prefixes still to explore.  A 'split' job explores breadth-first until the frontier is
        # wide enough and hands the frontier back (out['frontier']); subtree jobs start from given prefixes.
        work = [[tuple(d) for d in p] for p in spec.get('roots', [[]])]
        split_target = spec.get('split_target')
        done_prefixes = []
        covers = set()
        deadline = t0 + spec.get('job_timeout_s', 3600)
        nx = 0
        sat_count = {}
        while work:
            if time.time() > deadline:
                out['errors'].append('job timeout with %d prefixes left' % len(work))
                break
            if (split_target and len(work) >= split_target) or \
                    (spec.get('path_budget') and out['paths'] >= spec['path_budget'] and work):
                # hand the unexplored prefixes back for redistribution
                out['frontier'] = [[list(d) for d in p] for p in work] + done_prefixes
                done_prefixes = []
                work = []
                break
            prefix = work.pop(0) if split_target else work.pop()
            eng.reset(prefix)
            ctx = Ctx('sym', eng)
            eng.hints_for_realize = ctx.hints       # same list object: hints declared so far
            try:
                with shims():
                    h.fn(ctx, **spec['params'])
            except PathAbort:
                work.extend(eng.pending)
                out['aborted'] += 1
                continue
            work.extend(eng.pending)
            if split_target:
                # split jobs only explore: the finished path is handed out as a (complete) prefix and proved by a subtree job
                done_prefixes.append([list(d) for d in eng.prefix])
                continue
            out['paths'] += 1
            out['realized'] = eng.realized
            if out['paths'] > h.max_paths:
                out['path_cap_hit'] = True
                break
            cons = eng.constraints()
            # reachability twin: `assert False` at the end of this path must be violated
            tw, wm = eng.sat_check([], 5000)
            if tw == 'unsat':
                out['vacuous_paths'] += 1
                continue
            if tw == 'sat':
                covers |= ctx.covered
                for cname, cterm in ctx.cover_conds:
                    if cname not in covers:
                        cr, _ = eng.sat_check([cterm], 3000)
                        if cr == 'sat':
                            covers.add(cname)
                if len(out['witnesses']) < spec.get('n_witness', 3):
                    # prefer a witness with moderate magnitudes (float replay: no overflow/underflow)
                    bnd = list(ctx.hints) or [z3.And(v >= -50, v <= 50) for v in ctx.inputs.values() if z3.is_real(v)]
                    tw2, wm2 = eng.sat_check(bnd, 3000)
                    out['witnesses'].append(_model_values(wm2 if tw2 == 'sat' else wm, ctx.inputs))
            nontrivial = False
            for gname, gterm, kregion in ctx.goals:
                out['goals'] += 1
                gs = z3.simplify(gterm)
                if z3.is_true(gs):
                    out['unsat'] += 1
                    continue
                nontrivial = True
                fam = gname.split('[')[0]
                if sat_count.get(fam, 0) >= 4:
                    # fail fast: this goal family already has several counterexamples in this job
                    out['skipped_after_cex'] = out.get('skipped_after_cex', 0) + 1
                    continue
                _t0 = time.time()
                r, info = solve.prove_isolated(cons, gterm, spec.get('query_timeout_s', 20), ctx.inputs, ctx.regions,
                                               ctx.hints, key=(spec['harness'], gname.split('[')[0]))
                if r == 'unknown':
                    # rare under load: one retry with a larger budget before calling it inconclusive
                    r, info = solve.prove_isolated(cons, gterm, 4 * spec.get('query_timeout_s', 20), ctx.inputs,
                                                   ctx.regions, ctx.hints, key=None)
                    out['retried'] = out.get('retried', 0) + 1
                rec = None
                if r == 'sat':
                    rec = dict(prop=spec['prop'], harness=spec['harness'], params=spec['params'], goal=gname,
                               values=info['values'], decisions=eng.decision_string(), regions=info['regions'],
                               known_region=kregion, via=info.get('via', 'exact'))
                if os.environ.get('SYMX_DEBUG'):
                    print('   goal %-40s %-8s %.2fs path=%s size=%d' % (gname, r, time.time() - _t0, eng.decision_string(), len(str(gs))), flush=True)
                if r == 'unsat':
                    out['unsat'] += 1
                    nx += 1
                    if spec.get('xcheck_every') and nx % spec['xcheck_every'] == 0:
                        xr = solve.cross_check(cons, gterm, 10)
                        out['xcheck']['n'] += 1
                        out['xcheck'][xr] += 1
                elif r == 'sat':
                    out['sat'] += 1
                    if not rec.get('regions'):      # region-tagged models may be instances of a recorded finding
                        sat_count[fam] = sat_count.get(fam, 0) + 1
                    if len(out['cex']) < 40:
                        out['cex'].append(rec)
                else:
                    out['unknown'] += 1
                    if len(out['unknown_goals']) < 10:
                        out['unknown_goals'].append(gname)
            if nontrivial:
                out['nontrivial_paths'] += 1
            if len(out['samples']) < 2 and ctx.goals:
                out['samples'].append(dict(
                    harness=spec['harness'], params=spec['params'],
                    decisions=eng.decision_string()[:120],
                    path_condition=[str(z3.simplify(c))[:160] for c in eng.pc[:6]],
                    goals=[g[0] for g in ctx.goals[:8]],
                    example_goal=str(ctx.goals[-1][1])[:400], notes=ctx.notes))
        if split_target and done_prefixes:
            out['frontier'] = out.get('frontier', []) + done_prefixes
        out['covers'] = sorted(covers)
        out['engine'] = eng.stats
        out['solve'] = {k: v for k, v in solve.STATS.items()}
    except BaseException as e:   # noqa
        out['errors'].append('%s: %s\n%s' % (type(e).__name__, e, traceback.format_exc()[-3000:]))
    out['wall_s'] = time.time() - t0
    return out


# ------------------------------------------------------------------------------------------
# replay (concrete, JIT enabled, no shims)

def replay_record(rec):
    """-> dict(reproduced=bool, failed_goals=[...], pre_ok=bool, error=str|None)"""
    from symx.harness import Ctx, ReplayPrecondition
    reg = _load(rec['prop'])
    h = reg[rec['harness']]
    ctx = Ctx('replay', values=rec['values'])
    res = dict(reproduced=False, failed_goals=[], pre_ok=True, error=None, goals=0)
    try:
        h.fn(ctx, **rec['params'])
    except ReplayPrecondition as e:
        res['pre_ok'] = False
        res['error'] = str(e)
        return res
    except Exception as e:
        res['error'] = '%s: %s' % (type(e).__name__, e)
        res['trace'] = traceback.format_exc()[-1500:]
        if rec.get('goal') != '*' and '/repo/' in res['trace'].replace(REPO, '/repo') and 'taurex' in res['trace']:
            # the real code raised on the solver's (precondition-satisfying) inputs where the property demands a
            # value: the counterexample reproduces as an exception
            res['reproduced'] = True
            res['failed_goals'] = ['<exception in the code under test: %s>' % res['error'][:120]]
        return res
    res['goals'] = len(ctx.goals)
    res['failed_goals'] = [g[0] for g in ctx.goals if not g[1]]
    res['reproduced'] = len(res['failed_goals']) > 0
    res['notes'] = {k: str(v)[:300] for k, v in ctx.notes.items()}
    return res


def replay_file(path):
    rec = json.load(open(path))
    res = replay_record(rec)
    print(json.dumps(res, indent=1, default=str))
    if res['reproduced']:
        print('REPRODUCED property=%s harness=%s goals=%s' % (rec['prop'], rec['harness'],
                                                             res['failed_goals'][:5]))
        return 0
    return 3


def _replay_subprocess(path, timeout=600):
    env = dict(os.environ)
    env.pop('NUMBA_DISABLE_JIT', None)
    env['PYTHONPATH'] = VERIF + os.pathsep + REPO
    env['PYTHONWARNINGS'] = 'ignore'
    try:
        p = subprocess.run([sys.executable, '-m', 'symx.run', '--replay', path], cwd=VERIF, env=env,
                           capture_output=True, text=True, timeout=timeout)
    except subprocess.TimeoutExpired:
        return None, 'timeout'
    return p.returncode, p.stdout[-3000:] + p.stderr[-2000:]


def _replay_batch(paths, timeout=900):
    """replay many records in one JIT-enabled subprocess -> {path: result dict}"""
    env = dict(os.environ)
    env.pop('NUMBA_DISABLE_JIT', None)
    env['PYTHONPATH'] = VERIF + os.pathsep + REPO
    env['PYTHONWARNINGS'] = 'ignore'
    lst = os.path.join(VERIF, 'replays', '.batch_%d.json' % os.getpid())
    json.dump(paths, open(lst, 'w'))
    try:
        p = subprocess.run([sys.executable, '-m', 'symx.run', '--replay-batch', lst], cwd=VERIF,
                           env=env, capture_output=True, text=True, timeout=timeout)
        for line in p.stdout.splitlines():
            if line.startswith('BATCH-RESULT '):
                return json.loads(line[len('BATCH-RESULT '):])
        return {'_error': p.stdout[-1500:] + p.stderr[-1500:]}
    except subprocess.TimeoutExpired:
        return {'_error': 'timeout'}
    finally:
        try:
            os.remove(lst)
        except OSError:
            pass


def replay_batch_main(lst):
    paths = json.load(open(lst))
    res = {}
    for p in paths:
        try:
            res[p] = replay_record(json.load(open(p)))
        except BaseException as e:  # noqa
            res[p] = dict(reproduced=False, error='%s: %s' % (type(e).__name__, e), pre_ok=True,
                          failed_goals=[])
    print('BATCH-RESULT ' + json.dumps(res, default=str))
    return 0


# ------------------------------------------------------------------------------------------

def _job_entry(spec, q):
    try:
        from symx.solve import die_with_parent
        die_with_parent()
    except Exception:
        pass
    try:
        q.put(run_job(spec))
    except BaseException as e:      # noqa
        q.put(dict(spec=spec, paths=0, vacuous_paths=0, aborted=0, goals=0, unsat=0, sat=0, unknown=0,
                   nontrivial_paths=0, covers=[], cex=[], samples=[], errors=['worker crashed: %r' % (e,)],
                   path_cap_hit=False, xcheck=dict(n=0, agree=0, unknown=0, contradict=0), witnesses=[],
                   unknown_goals=[], wall_s=0.0))


def _schedule(specs, njobs):
    """run every job in its own (killable) process, at most njobs at a time"""
    import multiprocessing as mp
    import queue as _q
    ctxm = mp.get_context('spawn')
    pending = list(specs)
    running = {}
    results = []
    q = ctxm.Queue()

    def report(r):
        s = r['spec']
        print('  job %-24s %-44s shard=%-8s paths=%d goals=%d unsat=%d sat=%d unknown=%d %.1fs%s' % (
            s['harness'], json.dumps(s['params'], sort_keys=True)[:44], s.get('shard'),
            r['paths'], r['goals'], r['unsat'], r['sat'], r['unknown'], r['wall_s'],
            ' ERR' if r['errors'] else ''), flush=True)
    nid = 0
    while pending or running:
        while pending and len(running) < njobs:
            spec = pending.pop(0)
            spec['_id'] = nid
            p = ctxm.Process(target=_job_entry, args=(spec, q), daemon=False)
            p.start()
            running[nid] = (p, spec, time.time())
            nid += 1
        try:
            r = q.get(timeout=1.0)
            jid = r['spec'].get('_id')
            if jid in running:
                running[jid][0].join(timeout=10)
                del running[jid]
            results.append(r)
            report(r)
        except _q.Empty:
            pass
        now = time.time()
        for jid, (p, spec, t0) in list(running.items()):
            limit = spec.get('job_timeout_s', 3600) + 60
            if now - t0 > limit or (not p.is_alive() and now - t0 > 5 and q.empty()):
                dead = not p.is_alive()
                if not dead:
                    p.kill()
                p.join(timeout=10)
                del running[jid]
                if dead and not spec.get('safe'):
                    # the worker was killed by its own safety alarm (a solver call ignored its timeout): once more, with
                    # every solver call in a hard-killable child
                    sp2 = dict(spec)
                    sp2['safe'] = True
                    pending.append(sp2)
                    continue
                r = dict(spec=spec, paths=0, vacuous_paths=0, aborted=0, goals=0, unsat=0, sat=0, unknown=0,
                         nontrivial_paths=0, covers=[], cex=[], samples=[],
                         errors=['worker %s' % ('died without a result' if dead else 'killed: job time limit %ds' % limit)],
                         path_cap_hit=False, xcheck=dict(n=0, agree=0, unknown=0, contradict=0), witnesses=[],
                         unknown_goals=[], wall_s=now - t0)
                results.append(r)
                report(r)
    return results


def _src_hash(qualname):
    """hash of the current source of a function/class in /repo"""
    try:
        modname, _, attr = qualname.partition(':')
        mod = importlib.import_module(modname)
        obj = mod
        for part in attr.split('.'):
            obj = getattr(obj, part)
        obj = getattr(obj, 'py_func', obj)
        obj = getattr(obj, 'fget', obj)
        src = inspect.getsource(obj)
        return hashlib.sha256(src.encode()).hexdigest()[:16]
    except Exception as e:
        return 'unavailable(%s)' % type(e).__name__


def load_known():
    p = os.path.join(VERIF, 'known_findings.json')
    if os.path.exists(p):
        return json.load(open(p))
    return dict(findings=[], fixed=[])


def match_known(known, rec):
    for f in known.get('findings', []):
        if f['property'] != rec['prop'] or f['harness'] != rec['harness']:
            continue
        if not fnmatch.fnmatch(rec['goal'], f['goal']):
            continue
        reg = f.get('region', 'all')
        if reg == 'all' or reg in rec.get('regions', []) or '*' in rec.get('regions', []):
            return f
    return None


def main(argv=None):
    ap = argparse.ArgumentParser()
    ap.add_argument('prop', nargs='?')
    ap.add_argument('--tier', default=os.environ.get('VERIF_TIER', 'quick'))
    ap.add_argument('--replay')
    ap.add_argument('--replay-batch')
    ap.add_argument('--only', help='harness name filter (fnmatch)')
    ap.add_argument('--jobs', type=int, default=int(os.environ.get('VERIF_JOBS', '16')))
    ap.add_argument('--no-evidence', action='store_true')
    args = ap.parse_args(argv)
    if args.replay:
        return replay_file(args.replay)
    if args.replay_batch:
        return replay_batch_main(args.replay_batch)

    prop = args.prop.upper()
    tier = args.tier if args.tier in ('quick', 'thorough') else 'quick'
    seed = int(os.environ.get('VERIF_SEED', '0') or 0)
    os.environ['NUMBA_DISABLE_JIT'] = '1'
    os.environ[GUARD] = '1'
    t0 = time.time()
    reg = _load(prop)
    if not reg:
        print('no harnesses for', prop)
        return 2
    qto = 20 if tier == 'quick' else 120
    specs = []
    for hname, h in sorted(reg.items()):
        if args.only and not fnmatch.fnmatch(hname, args.only):
            continue
        plist = h.quick if tier == 'quick' else h.thorough
        for params in plist:
            params = dict(params)
            shards = params.pop('_shards', h.shards)
            for i in range(shards):
                specs.append(dict(prop=prop, harness=hname, params=params,
                                  shard=[i, shards] if shards > 1 else None,
                                  query_timeout_s=qto, xcheck_every=25,
                                  job_timeout_s=900 if tier == 'quick' else 3 * 3600))
    # phase 1: jobs that want sharding first run as 'split' jobs (breadth-first until the frontier has enough prefixes);
    # phase 2: the frontier prefixes are dealt out to subtree jobs (dynamic balance instead of hashing decisions)
    phase1 = []
    for sp in specs:
        sp = dict(sp)
        if sp.get('shard'):
            if sp['shard'][0] != 0:
                continue
            sp['split_target'] = max(8, 4 * sp['shard'][1])
            sp['nsub'] = sp['shard'][1]
            sp['shard'] = None
        else:
            # unsharded jobs also give back their unexplored prefixes once they have done a fair share of paths
            sp['path_budget'] = 60
            sp['nsub'] = 8
        phase1.append(sp)
    results = _schedule(phase1, args.jobs)
    todo = results
    rnd = 0
    while True:
        rnd += 1
        nxt = []
        for r in todo:
            fr = r.get('frontier')
            if fr:
                nsub = max(1, min(len(fr), 2 * r['spec'].get('nsub', 1)))
                for i in range(nsub):
                    sp = {k: v for k, v in r['spec'].items() if k not in ('split_target', '_id', 'path_budget')}
                    sp['roots'] = fr[i::nsub]
                    sp['shard'] = 'r%d.%d/%d' % (rnd, i, nsub)
                    sp['path_budget'] = 40 if rnd < 8 else None     # big subtrees come back and are split again
                    nxt.append(sp)
        if not nxt:
            break
        todo = _schedule(nxt, args.jobs)
        results += todo

    known = load_known()
    errors = [e for r in results for e in r['errors']]
    inconclusive = []
    tot = dict(paths=0, goals=0, unsat=0, sat=0, unknown=0, vacuous_paths=0, nontrivial_paths=0,
               aborted=0)
    for r in results:
        for k in tot:
            tot[k] += r[k]
        if r['path_cap_hit']:
            inconclusive.append('path cap hit in %s %s' % (r['spec']['harness'], r['spec']['params']))
        if r.get('realized'):
            inconclusive.append('%d symbolic values were realised to concrete floats by the code under test in %s %s: those paths cover one value only' % (r['realized'], r['spec']['harness'], r['spec']['params']))
        if r['unknown']:
            inconclusive.append('%d unknown queries in %s %s: %s' % (
                r['unknown'], r['spec']['harness'], r['spec']['params'], r['unknown_goals'][:4]))
    # covers (reachability witnesses)
    missing_covers = []
    for hname, h in reg.items():
        if args.only and not fnmatch.fnmatch(hname, args.only):
            continue
        got = set()
        for r in results:
            if r['spec']['harness'] == hname:
                got |= set(r['covers'])
        for c in h.covers:
            if c not in got:
                missing_covers.append('%s:%s' % (hname, c))
    if missing_covers:
        inconclusive.append('reachability witnesses missing: %s' % missing_covers)
    if tot['paths'] - tot['vacuous_paths'] <= 0:
        inconclusive.append('no feasible path')

    # counterexamples: replay against the real (JIT) code
    rdir = os.path.join(VERIF, 'replays', prop)
    os.makedirs(rdir, exist_ok=True)
    cexs = [c for r in results for c in r['cex']]
    files = []
    for c in cexs:
        hsh = hashlib.sha256(json.dumps(c, sort_keys=True).encode()).hexdigest()[:12]
        path = os.path.join(rdir, '%s_%s.json' % (c['harness'], hsh))
        json.dump(c, open(path, 'w'), indent=1)
        files.append(path)
    violations, known_hits, nonrepro = [], {}, []
    known_unreplayed = {}
    if files:
        br = _replay_batch(files)
        if '_error' in br:
            errors.append('replay batch failed: %s' % br['_error'])
        else:
            for path, c in zip(files, cexs):
                rr = br.get(path, {})
                if rr.get('reproduced'):
                    kf = match_known(known, c)
                    if kf is not None:
                        known_hits.setdefault(kf['id'], [kf, 0, path])
                        known_hits[kf['id']][1] += 1
                    else:
                        violations.append((path, c, rr))
                else:
                    kf = match_known(known, c)
                    if kf is not None and rr.get('pre_ok', True) and not rr.get('error'):
                        # solver model inside the region of a recorded finding that float arithmetic does not hit
                        # exactly (e.g. an exact-equality branch): an instance of that finding, not a new alarm
                        known_hits.setdefault(kf['id'], [kf, 0, path])
                        known_unreplayed[kf['id']] = known_unreplayed.get(kf['id'], 0) + 1
                    else:
                        nonrepro.append((path, c, rr))
    for path, c, rr in nonrepro:
        inconclusive.append('solver model did not reproduce on the real code: %s goal=%s (%s)' % (
            c['harness'], c['goal'], (rr.get('error') or 'goals held in float arithmetic')))

    # witness concordance: replay path witnesses on the JIT code, all goals must hold
    conc = dict(points=0, held=0, failed=0, pre_rounding=0, errors=0, failed_examples=[])
    wfiles = []
    if os.environ.get('VERIF_CONCORDANCE', '1') == '1':
        wdir = os.path.join(VERIF, 'replays', prop, '.witness')
        os.makedirs(wdir, exist_ok=True)
        per_h = {}
        for r in results:
            for w in r['witnesses']:
                key = r['spec']['harness']
                if per_h.get(key, 0) >= 12:
                    continue
                per_h[key] = per_h.get(key, 0) + 1
                rec = dict(prop=prop, harness=r['spec']['harness'], params=r['spec']['params'],
                           goal='*', values=w)
                p = os.path.join(wdir, 'w%d.json' % len(wfiles))
                json.dump(rec, open(p, 'w'))
                wfiles.append(p)
        if wfiles:
            br = _replay_batch(wfiles)
            if '_error' in br:
                errors.append('concordance batch failed: %s' % br['_error'])
            else:
                for p in wfiles:
                    rr = br.get(p, {})
                    conc['points'] += 1
                    if not rr.get('pre_ok', True):
                        conc['pre_rounding'] += 1
                    elif rr.get('error'):
                        conc['errors'] += 1
                        conc['failed_examples'].append(rr['error'][:200])
                    elif rr.get('reproduced') and all(
                            match_known(known, dict(prop=prop, harness=json.load(open(p))['harness'], goal=g,
                                                    regions=['*'])) is not None for g in rr.get('failed_goals', [])):
                        conc['held'] += 1          # only goals recorded as known findings fail at this witness
                    elif rr.get('reproduced'):
                        conc['failed'] += 1
                        conc['failed_examples'].append(str(rr.get('failed_goals'))[:200])
                    else:
                        conc['held'] += 1
        for p in wfiles:
            try:
                os.remove(p)
            except OSError:
                pass

    wall = time.time() - t0
    status = 0
    for kid, (kf, n, path) in sorted(known_hits.items()):
        print('KNOWN-FINDING: property=%s %s [%s; %d solver counterexamples reproduced, e.g. %s]' % (
            prop, kf['what'], kid, n, os.path.relpath(path, VERIF)))
    for path, c, rr in violations[:10]:
        print('VIOLATION property=%s replay=%s' % (prop, os.path.relpath(path, VERIF)))
        print('   harness=%s params=%s goal=%s failed_in_replay=%s' % (
            c['harness'], c['params'], c['goal'], rr.get('failed_goals', [])[:4]))
    if violations:
        status = 1
    elif errors or inconclusive:
        status = 2
    for e in errors[:5]:
        print('HARNESS-ERROR:', e[:3000])
    for e in inconclusive[:10]:
        print('INCONCLUSIVE:', e[:600])

    if not args.no_evidence:
        fn_names = sorted({f for h in reg.values() for f in h.functions})
        solver_s = sum(r.get('solve', {}).get('solver_s', 0) for r in results)
        by_strat = {}
        for r in results:
            for k, v in r.get('solve', {}).get('by_strategy', {}).items():
                by_strat[k] = by_strat.get(k, 0) + v
        xc = dict(n=0, agree=0, unknown=0, contradict=0)
        for r in results:
            for k in xc:
                xc[k] += r['xcheck'][k]
        if xc['contradict']:
            status = max(status, 2)
            print('INCONCLUSIVE: cvc5 contradicted z3 on %d queries' % xc['contradict'])
        samples = [s for r in results for s in r['samples']][:6]
        ev = dict(
            property_id=prop, tier=tier, seed=seed, level='other', wall_s=round(wall, 2),
            violations=len(violations),
            coverage=dict(
                explanation=(
                    'Bounded symbolic execution of the real TauREx functions (numba kernels run as '
                    'their Python bodies) on z3 Real proxies inside numpy object arrays; every '
                    'comparison forks; each path yields proof obligations (the property as a formula '
                    'over the symbolic inputs) discharged one by one with a fresh z3 solver '
                    '(default -> nlsat on a UF-abstracted copy -> cvc5). unsat = holds for ALL real '
                    'values of the inputs on that path at the stated sizes; sat = counterexample, '
                    'replayed on the unmodified JIT-compiled code in float arithmetic before it is '
                    'reported. Float rounding is outside the claim.'),
                evaluations=tot['goals'],
                distinct_nontrivial=tot['nontrivial_paths'],
                rule=('evaluations = proof obligations sent through the engine; distinct_nontrivial = '
                      'distinct feasible execution paths of the real code (distinct decision '
                      'sequences) that carried at least one obligation z3.simplify could not close '
                      'syntactically'),
                samples=samples or [dict(note='no path produced goals')],
                exhaustive=False,
                functions_encoded={f: _src_hash(f) for f in fn_names},
                harnesses={hn: dict(doc=h.doc[:600], params=(h.quick if tier == 'quick' else h.thorough),
                                    stubs=list(h.stubs), outside_claim=list(h.outside),
                                    reachability_witnesses_required=list(h.covers))
                           for hn, h in sorted(reg.items())
                           if not (args.only and not fnmatch.fnmatch(hn, args.only))},
                paths=dict(explored=tot['paths'], vacuous=tot['vacuous_paths'],
                           aborted_infeasible_or_shard=tot['aborted']),
                queries=dict(total=tot['goals'], unsat=tot['unsat'], sat=tot['sat'],
                             sat_reproduced_violations=len(violations),
                             sat_known_findings=sum(v[1] for v in known_hits.values()),
                             sat_in_known_region_not_hit_in_floats=sum(known_unreplayed.values()),
                             sat_not_reproduced=len(nonrepro), unknown=tot['unknown'],
                             by_strategy=by_strat),
                solver_s=round(solver_s, 2),
                feasibility_checks=sum(r.get('engine', {}).get('feas_checks', 0) for r in results),
                cross_check_cvc5=xc,
                witness_concordance_on_jit_code=conc,
                known_findings_hit=sorted(known_hits),
                inconclusive=inconclusive[:10], harness_errors=[e[:300] for e in errors[:5]],
                exit_status=status),
            assumptions=[
                'real arithmetic stands for IEEE doubles (rounding/overflow outside the claim)',
                'numba-compiled kernels behave as their Python bodies (NUMBA_DISABLE_JIT=1 in the '
                'symbolic run; replay and witness concordance use the JIT-compiled code)',
                'numpy generic machinery (ufunc loops, sum, cumsum, searchsorted, argsort, fancy '
                'indexing) behaves on object arrays as on float arrays',
                'contract stubs and UF lemma instances listed per harness are true of the real '
                'routines', 'sizes outside the listed params are not covered'])
        os.makedirs(os.path.join(VERIF, 'evidence'), exist_ok=True)
        json.dump(ev, open(os.path.join(VERIF, 'evidence', '%s.json' % prop), 'w'), indent=1,
                  default=str)
    print('%s tier=%s: paths=%d goals=%d unsat=%d sat=%d unknown=%d concordance=%s wall=%.1fs -> exit %d' % (
        prop, tier, tot['paths'], tot['goals'], tot['unsat'], tot['sat'], tot['unknown'],
        '%d/%d' % (conc['held'], conc['points']), wall, status))
    return status


if __name__ == '__main__':
    sys.exit(main())
