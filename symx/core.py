"""symx.core -- symbolic scalars (z3 Real proxies) and the path-exploring engine.

The real TauREx code is executed on these proxies (inside numpy object arrays);
every comparison funnels into SymBool.__bool__, where the engine forks.
Exploration is by re-execution with a prescribed decision prefix.
"""
import math
import time
from fractions import Fraction

import numpy as np
import z3


class PathAbort(BaseException):
    """Ends the current path (infeasible / shard skip). BaseException so the code
    under test's `except Exception` cannot swallow it."""


class EngineError(BaseException):
    """Harness / engine error (silent concretisation, unsupported operation)."""


class Inconclusive(BaseException):
    pass


_ENGINE = None


def engine():
    return _ENGINE


def set_engine(e):
    global _ENGINE
    _ENGINE = e


def realval(x):
    """exact rational of a python/numpy number as a z3 Real numeral"""
    if isinstance(x, bool):
        x = int(x)
    if isinstance(x, (int, np.integer)):
        return z3.RealVal(int(x))
    if isinstance(x, Fraction):
        return z3.RealVal(str(x))
    x = float(x)
    if x != x or x in (math.inf, -math.inf):
        raise EngineError('non-finite constant %r in symbolic arithmetic' % x)
    if x == int(x) and abs(x) < 1e15:
        return z3.RealVal(int(x))
    # use the shortest repr decimal if it round-trips: keeps numerals small and is
    # what the source text says (0.1 means one tenth for the algebraic claim)
    r = repr(x)
    try:
        f = Fraction(r)
        if float(f) == x:
            return z3.RealVal(str(f))
    except Exception:
        pass
    return z3.RealVal(str(Fraction(x)))


_NUM = (int, float, np.integer, np.floating, bool, np.bool_, Fraction)


def _is_special(x):
    return isinstance(x, (float, np.floating)) and (x != x or x in (math.inf, -math.inf))


def lift(x):
    """-> z3 Real term"""
    if isinstance(x, Sym):
        return x.t
    if isinstance(x, SymInt):
        return z3.ToReal(x.t)
    if isinstance(x, _NUM):
        return realval(x)
    if isinstance(x, np.ndarray) and x.ndim == 0:
        return lift(x.item())
    if z3.is_expr(x):
        return x
    raise EngineError('cannot lift %r (%s)' % (x, type(x)))


# --------------------------------------------------------------------------------------
# uninterpreted functions

_R = z3.RealSort()
UF = {
    'exp': z3.Function('exp', _R, _R),
    'ln': z3.Function('ln', _R, _R),
    'log10': z3.Function('log10', _R, _R),
    'exp10': z3.Function('exp10', _R, _R),
    'sqrt': z3.Function('sqrt', _R, _R),
    'pow': z3.Function('pow', _R, _R, _R),
    'ppf': z3.Function('ppf', _R, _R),      # inverse normal CDF
    'E2': z3.Function('E2', _R, _R),        # exponential integral
    'B': z3.Function('B', _R, _R, _R),      # Planck function B(nu, T)
}


def uf_apply(name, *args):
    e = engine()
    ts = [z3.simplify(lift(a)) for a in args]
    app = UF[name](*ts)
    if e is not None:
        e.note_app(name, ts, app)
    return Sym(app)


class Sym(object):
    __slots__ = ('t',)

    def __init__(self, t):
        self.t = t

    # numpy object-array protocol -------------------------------------------------
    def exp(self):
        return uf_apply('exp', self)

    def log(self):
        return uf_apply('ln', self)

    def log10(self):
        return uf_apply('log10', self)

    def sqrt(self):
        return uf_apply('sqrt', self)

    def conjugate(self):
        return self

    @property
    def real(self):
        return self

    @property
    def imag(self):
        return 0

    def copy(self):
        return self

    def __deepcopy__(self, memo):
        return self

    def __reduce__(self):
        raise EngineError('pickling a symbolic value')

    # arithmetic -------------------------------------------------------------------
    def _bin(self, o, f, rev=False):
        if isinstance(o, np.ndarray) and o.ndim > 0:
            return NotImplemented
        if isinstance(o, (list, tuple, str, type(None))):
            return NotImplemented
        if _is_special(o):
            return self._special(o, f, rev)
        try:
            b = lift(o)
        except EngineError:
            return NotImplemented
        a = self.t
        return Sym(f(b, a) if rev else f(a, b))

    def _special(self, o, f, rev):
        o = float(o)
        if o != o:
            return float('nan')
        name = f.__name__
        if name in ('_add',):
            return o
        if name == '_sub':
            return -o if not rev else o
        if name == '_mul':
            pos = bool(self > 0)
            if pos:
                return o
            if bool(self < 0):
                return -o
            return float('nan')
        if name == '_div':
            if rev:   # inf / self
                if bool(self > 0):
                    return o
                if bool(self < 0):
                    return -o
                return float('nan')
            return 0.0
        raise EngineError('special value in %s' % name)

    def __add__(self, o):
        return self._bin(o, _add)

    def __radd__(self, o):
        return self._bin(o, _add, True)

    def __sub__(self, o):
        return self._bin(o, _sub)

    def __rsub__(self, o):
        return self._bin(o, _sub, True)

    def __mul__(self, o):
        return self._bin(o, _mul)

    def __rmul__(self, o):
        return self._bin(o, _mul, True)

    def __truediv__(self, o):
        return self._bin(o, _div)

    def __rtruediv__(self, o):
        return self._bin(o, _div, True)

    def __neg__(self):
        return Sym(-self.t)

    def __pos__(self):
        return self

    def __abs__(self):
        return Sym(z3.If(self.t >= 0, self.t, -self.t))

    def __pow__(self, o):
        if isinstance(o, np.ndarray) and o.ndim > 0:
            return NotImplemented
        if isinstance(o, _NUM) and not isinstance(o, Fraction):
            of = float(o)
            if of == int(of) and abs(of) <= 12:
                n = int(of)
                if n == 0:
                    return Sym(z3.RealVal(1))
                r = self.t
                for _ in range(abs(n) - 1):
                    r = r * self.t
                return Sym(r) if n > 0 else Sym(1 / r)
            if of == 0.5:
                return self.sqrt()
            if of == -0.5:
                return 1 / self.sqrt()
        return uf_apply('pow', self, o)

    def __rpow__(self, o):
        if isinstance(o, _NUM) and float(o) == 10.0:
            return uf_apply('exp10', self)
        if isinstance(o, _NUM) and float(o) == math.e:
            return uf_apply('exp', self)
        return uf_apply('pow', o, self)

    # comparisons ---------------------------------------------------------------------
    def _cmp(self, o, f):
        if isinstance(o, np.ndarray) and o.ndim > 0:
            return NotImplemented
        if o is None or isinstance(o, (str, list, tuple)):
            return NotImplemented
        if _is_special(o):
            o = float(o)
            if o != o:
                return f is _ne
            if o > 0:   # +inf
                return f in (_lt, _le, _ne)
            return f in (_gt, _ge, _ne)
        try:
            b = lift(o)
        except EngineError:
            return NotImplemented
        return SymBool(f(self.t, b))

    def __lt__(self, o):
        return self._cmp(o, _lt)

    def __le__(self, o):
        return self._cmp(o, _le)

    def __gt__(self, o):
        return self._cmp(o, _gt)

    def __ge__(self, o):
        return self._cmp(o, _ge)

    def __eq__(self, o):
        r = self._cmp(o, _eq)
        return False if r is NotImplemented else r

    def __ne__(self, o):
        r = self._cmp(o, _ne)
        return True if r is NotImplemented else r

    def __hash__(self):
        return id(self)

    def __bool__(self):
        return bool(SymBool(self.t != 0))

    def __float__(self):
        v = z3.simplify(self.t)
        if z3.is_rational_value(v):
            return float(Fraction(v.numerator_as_long(), v.denominator_as_long()))
        e = engine()
        if e is not None and e.allow_realize:
            return e.realize(self.t)
        raise EngineError('silent concretisation of symbolic value %s' % str(self.t)[:80])

    def __int__(self):
        v = z3.simplify(self.t)
        if z3.is_rational_value(v) and v.denominator_as_long() == 1:
            return v.numerator_as_long()
        e = engine()
        if e is not None and e.allow_realize:
            return int(e.realize(self.t))      # C-level truncation of a realised value (see realize)
        raise EngineError('silent int() of symbolic value')


    def __repr__(self):
        s = str(z3.simplify(self.t))
        return 'Sym(%s)' % (s if len(s) < 60 else s[:57] + '...')

    def __format__(self, spec):
        return repr(self)


def _add(a, b):
    return a + b


def _sub(a, b):
    return a - b


def _mul(a, b):
    return a * b


def _div(a, b):
    return a / b


def _lt(a, b):
    return a < b


def _le(a, b):
    return a <= b


def _gt(a, b):
    return a > b


def _ge(a, b):
    return a >= b


def _eq(a, b):
    return a == b


def _ne(a, b):
    return a != b


class SymBool(object):
    __slots__ = ('t',)

    def __init__(self, t):
        self.t = t

    def __bool__(self):
        e = engine()
        if e is None:
            raise EngineError('SymBool outside engine')
        return e.decide(self.t)

    def _lift(self, o):
        if isinstance(o, SymBool):
            return o.t
        if isinstance(o, (bool, np.bool_)):
            return z3.BoolVal(bool(o))
        if z3.is_expr(o):
            return o
        return None

    def __and__(self, o):
        b = self._lift(o)
        return NotImplemented if b is None else SymBool(z3.And(self.t, b))

    __rand__ = __and__

    def __or__(self, o):
        b = self._lift(o)
        return NotImplemented if b is None else SymBool(z3.Or(self.t, b))

    __ror__ = __or__

    def __invert__(self):
        return SymBool(z3.Not(self.t))

    def __eq__(self, o):
        b = self._lift(o)
        return False if b is None else SymBool(self.t == b)

    def __hash__(self):
        return id(self)

    def __repr__(self):
        return 'SymBool(%s)' % str(self.t)[:60]


class SymInt(object):
    """symbolic integer used only as a selector; concretised by forking"""
    __slots__ = ('t', 'lo', 'hi')

    def __init__(self, t, lo, hi):
        self.t, self.lo, self.hi = t, lo, hi

    def pick(self):
        for v in range(self.lo, self.hi):
            if bool(SymBool(self.t == v)):
                return v
        return self.hi


def boolterm(b):
    if isinstance(b, SymBool):
        return b.t
    if isinstance(b, (bool, np.bool_)):
        return z3.BoolVal(bool(b))
    if z3.is_expr(b):
        return b
    raise EngineError('not a boolean: %r' % (b,))


# --------------------------------------------------------------------------------------

def numeric_eval(t):
    """float value of a ground z3 real term whose uninterpreted applications are evaluated with the real functions"""
    import math as _m
    if z3.is_rational_value(t):
        return t.numerator_as_long() / t.denominator_as_long()
    if z3.is_int_value(t):
        return float(t.as_long())
    if z3.is_algebraic_value(t):
        fr = t.approx(20)
        return fr.numerator_as_long() / fr.denominator_as_long()
    if not z3.is_app(t):
        raise EngineError('numeric_eval: %s' % str(t)[:60])
    k = t.decl().kind()
    a = [numeric_eval(c) for c in t.children()] if k != z3.Z3_OP_ITE else None
    if k == z3.Z3_OP_ADD:
        return sum(a)
    if k == z3.Z3_OP_SUB:
        return a[0] - sum(a[1:])
    if k == z3.Z3_OP_UMINUS:
        return -a[0]
    if k == z3.Z3_OP_MUL:
        r = 1.0
        for x in a:
            r *= x
        return r
    if k == z3.Z3_OP_DIV:
        return a[0] / a[1]
    if k == z3.Z3_OP_POWER:
        return a[0] ** a[1]
    if k == z3.Z3_OP_TO_REAL:
        return a[0]
    if k == z3.Z3_OP_ITE:
        c, x, y = t.children()
        cv = z3.simplify(c)
        if z3.is_true(cv):
            return numeric_eval(x)
        if z3.is_false(cv):
            return numeric_eval(y)
        l, r = (numeric_eval(cc) for cc in cv.children()[:2]) if len(cv.children()) == 2 else (0, 0)
        ck = cv.decl().kind()
        ok = {z3.Z3_OP_LE: l <= r, z3.Z3_OP_LT: l < r, z3.Z3_OP_GE: l >= r, z3.Z3_OP_GT: l > r, z3.Z3_OP_EQ: l == r}.get(ck)
        if ok is None:
            raise EngineError('numeric_eval: condition %s' % str(cv)[:60])
        return numeric_eval(x if ok else y)
    if k == z3.Z3_OP_UNINTERPRETED:
        n = t.decl().name()
        f = {'exp': _m.exp, 'ln': _m.log, 'log10': _m.log10, 'exp10': lambda x: 10.0 ** x, 'sqrt': _m.sqrt,
             'pow': lambda x, y: x ** y}.get(n)
        if f is None:
            raise EngineError('numeric_eval: no numeric model for %s' % n)
        return f(*a)
    raise EngineError('numeric_eval: operator %s' % t.decl().name())


class PseudoModel(object):
    """values of the free constants of a satisfiable query, transported from a solver child process"""
    def __init__(self, vals):
        self.vals = vals
        self._pairs = None

    def pairs(self):
        if self._pairs is None:
            ps = []
            for name, (kind, v) in self.vals.items():
                if kind == 'r':
                    ps.append((z3.Real(name), z3.RealVal(v)))
                elif kind == 'i':
                    ps.append((z3.Int(name), z3.IntVal(v)))
                elif kind == 'b':
                    ps.append((z3.Bool(name), z3.BoolVal(v == 'True')))
            self._pairs = ps
        return self._pairs

    def eval(self, term, model_completion=True):
        ps = self.pairs()
        t = z3.substitute(term, *ps) if ps else term
        t = z3.simplify(t)
        if model_completion and not (z3.is_rational_value(t) or z3.is_true(t) or z3.is_false(t) or z3.is_int_value(t)):
            # constants the solver left unconstrained: complete the model with 1 (reals/ints) / False
            from z3 import z3util
            rest = [v for v in z3util.get_vars(t)]
            if rest:
                comp = [(v, z3.RealVal(1) if z3.is_real(v) else (z3.IntVal(1) if z3.is_int(v) else z3.BoolVal(False))) for v in rest]
                t = z3.simplify(z3.substitute(t, *comp))
        return t


class Engine(object):
    def __init__(self, feas_timeout_ms=500, shard=None, shard_depth=0, use_lemmas=True, safe=False):
        self.safe = safe
        self.pre = []
        self.feas_timeout_ms = feas_timeout_ms
        self.shard = shard            # (i, n) or None
        self.shard_depth = shard_depth
        self.use_lemmas = use_lemmas
        self.stats = dict(feas_checks=0, feas_unknown=0, feas_s=0.0, model_hits=0)
        self.allow_realize = True
        self.realized = 0
        self.hints_for_realize = []
        self.reset([])

    # ---- per path state
    def reset(self, prefix):
        self.prefix = [tuple(d) for d in prefix]
        self.pos = 0
        self.pc = []
        self.realized_vals = []
        self.decided = {}
        self.pre = []
        self.lemmas = []
        self.apps = {}
        self.pending = []
        self.model = None
        self.nforks = 0
        self._shard_checked = False

    def realize(self, term):
        """the code under test forces a symbolic value into a C-level float (e.g. np.asarray(x, dtype=float)):
        fix it to its value in a model of the current path (concolic fallback).  The path then covers that one value
        only, so a run that realised anything can still find violations but can no longer claim 'holds'."""
        from fractions import Fraction
        # prefer a value different from everything realised so far on this path (generic position)
        distinct = [term != realval(v) for v in self.realized_vals]
        r, m = self.sat_check(list(self.hints_for_realize) + distinct, 2000)
        if r != 'sat':
            r, m = self.sat_check(distinct, 2000)
        if r != 'sat':
            r, m = self.sat_check([], 5000)
        if r != 'sat':
            raise EngineError('cannot realise %s: path not satisfiable/unknown' % str(term)[:60])
        v = m.eval(term, model_completion=True)
        if not (z3.is_rational_value(v) or z3.is_algebraic_value(v)):
            # uninterpreted applications left: evaluate them with the TRUE functions at the model's inputs
            fl = numeric_eval(v)
            self.pc.append(term == realval(fl))
            self.model = None
            self.realized += 1
            self.realized_vals.append(fl)
            return fl
        if z3.is_rational_value(v):
            fr = Fraction(v.numerator_as_long(), v.denominator_as_long())
        elif z3.is_algebraic_value(v):
            fr = v.approx(20).as_fraction()
            fr = Fraction(fr.numerator, fr.denominator) if hasattr(fr, 'numerator') else Fraction(float(fr))
        else:
            raise EngineError('cannot realise %s' % str(term)[:60])
        fl = float(fr)
        self.pc.append(term == realval(fl))
        self.model = None
        self.realized += 1
        self.realized_vals.append(fl)
        return fl

    def assume(self, b):
        t = boolterm(b)
        self.pre.append(t)
        self.model = None

    def constraints(self):
        return self.pre + self.pc + (self.lemmas if self.use_lemmas else [])

    # ---- UF lemma instances (true facts only)
    def note_app(self, name, args, app):
        key = (name, tuple(a.get_id() for a in args))
        d = self.apps.setdefault(name, {})
        if key in d:
            return
        L = []
        a = args[0]
        if name == 'exp':
            L += [app > 0, z3.Implies(a == 0, app == 1), z3.Implies(a <= 0, app <= 1),
                  z3.Implies(a >= 0, app >= 1), app >= 1 + a]
            self._mono(name, a, app, d, L)
        elif name == 'exp10':
            L += [app > 0, z3.Implies(a == 0, app == 1), z3.Implies(a <= 0, app <= 1),
                  z3.Implies(a >= 0, app >= 1), z3.Implies(a == 1, app == 10),
                  z3.Implies(a == -1, app == z3.RealVal('1/10')), z3.Implies(a == 2, app == 100),
                  z3.Implies(a == -2, app == z3.RealVal('1/100'))]
            self._mono(name, a, app, d, L)
            # inverse pair with log10
            if z3.is_app(a) and a.decl().name() == 'log10':
                L.append(z3.Implies(a.arg(0) > 0, app == a.arg(0)))
        elif name in ('ln', 'log10'):
            L += [z3.Implies(a == 1, app == 0), z3.Implies(z3.And(a > 0, a < 1), app < 0),
                  z3.Implies(a > 1, app > 0)]
            if name == 'log10':
                L += [z3.Implies(a == 10, app == 1), z3.Implies(a == 100, app == 2),
                      z3.Implies(a == z3.RealVal('1/10'), app == -1), z3.Implies(a == z3.RealVal('1/100'), app == -2)]
            self._mono(name, a, app, d, L, domain_pos=True)
            inv = 'exp' if name == 'ln' else 'exp10'
            if z3.is_app(a) and a.decl().name() == inv:
                L.append(app == a.arg(0))
            # exp(ln x) = x is added when exp(ln x) is applied; also offer the instance
            # eagerly so that products can be related
        elif name == 'sqrt':
            L += [z3.Implies(a >= 0, z3.And(app >= 0, app * app == a))]
        elif name == 'ppf':
            L += [z3.Implies(a == z3.RealVal('1/2'), app == 0)]
            self._mono(name, a, app, d, L)
        elif name == 'E2':
            L += [z3.Implies(a >= 0, z3.And(app > 0, app <= 1))]
            self._mono(name, a, app, d, L, decreasing=True, domain_nonneg=True)
        elif name == 'B':
            nu, T = args
            L += [z3.Implies(z3.And(nu > 0, T > 0), app > 0)]
            for (n2, key2), (args2, app2) in list(d.items()):
                nu2, T2 = args2
                L.append(z3.Implies(z3.And(nu == nu2, nu > 0, T > 0, T2 > 0, T < T2), app < app2))
                L.append(z3.Implies(z3.And(nu == nu2, nu > 0, T > 0, T2 > 0, T2 < T), app2 < app))
        elif name == 'pow':
            b, p = args
            L += [z3.Implies(b > 0, app > 0), z3.Implies(p == 0, app == 1),
                  z3.Implies(p == 1, app == b)]
        d[key] = (args, app)
        # inverse pairs across non-syntactic arguments: ln(t) = a whenever t = exp(a) (and exp10/log10)
        for fwd, inv in (('exp', 'ln'), ('exp10', 'log10')):
            if name == inv:
                for (args2, app2) in list(self.apps.get(fwd, {}).values()):
                    L.append(z3.Implies(a == app2, app == args2[0]))
            if name == fwd:
                for (args2, app2) in list(self.apps.get(inv, {}).values()):
                    L.append(z3.Implies(args2[0] == app, app2 == a))
        if name in ('ln', 'log10') and z3.is_app(a) and a.decl().kind() == z3.Z3_OP_DIV:
            # ln(p/q) = -ln(q/p)  (true for p,q of equal sign, both sides undefined otherwise)
            num, den = a.arg(0), a.arg(1)
            rev = z3.simplify(den / num)
            rkey = (name, (rev.get_id(),))
            rapp = UF[name](rev)
            L.append(z3.Implies(z3.And(num > 0, den > 0), app == -rapp))
            if rkey not in d:
                self.lemmas.extend(L)
                L = []
                self.note_app(name, [rev], rapp)
        if name in ('exp', 'exp10') and z3.is_app(a) and a.decl().name() in ('ln', 'log10'):
            inner = a.decl().name()
            if (name, inner) in (('exp', 'ln'), ('exp10', 'log10')):
                L.append(z3.Implies(a.arg(0) > 0, app == a.arg(0)))
        self.lemmas.extend(L)
        self.model = None

    def _mono(self, name, a, app, d, L, domain_pos=False, decreasing=False, domain_nonneg=False):
        for key2, (args2, app2) in list(d.items()):
            a2 = args2[0]
            dom = []
            if domain_pos:
                dom = [a > 0, a2 > 0]
            if domain_nonneg:
                dom = [a >= 0, a2 >= 0]
            if decreasing:
                L.append(z3.Implies(z3.And(*(dom + [a < a2])), app > app2))
                L.append(z3.Implies(z3.And(*(dom + [a2 < a])), app2 > app))
            else:
                L.append(z3.Implies(z3.And(*(dom + [a < a2])), app < app2))
                L.append(z3.Implies(z3.And(*(dom + [a2 < a])), app2 < app))

    def add_lemma(self, t):
        self.lemmas.append(boolterm(t))
        self.model = None

    # ---- branching
    def sat_check(self, extras, timeout_ms):
        """satisfiability of pre + pc (+ lemmas) + extras, decided in a forked, hard-killable child (z3's own
        timeout is cooperative and is sometimes ignored).  Lemma instances are true facts about total functions:
        when the rest is UF-free they cannot affect satisfiability, so they are dropped and the pure real-arithmetic
        problem goes to nlsat.  -> ('sat', PseudoModel) | ('unsat', None) | ('unknown', None)"""
        from .solve import _has_uf, _nlsat_tactic, hard_call
        base = self.pre + self.pc + list(extras)
        t0 = time.time()
        if not _has_uf(base):
            mk = lambda: _nlsat_tactic().solver()      # noqa
            cons = base
        else:
            mk = lambda: z3.Solver()                   # noqa
            cons = base + (self.lemmas if self.use_lemmas else [])

        def work():
            s = mk()
            for c in cons:
                s.add(c)
            r = s.check()
            if r == z3.sat:
                m = s.model()
                vals = {}
                for d in m.decls():
                    if d.arity() == 0:
                        v = m[d]
                        if z3.is_int_value(v):
                            vals[d.name()] = ('i', str(v.as_long()))
                        elif z3.is_rational_value(v):
                            vals[d.name()] = ('r', '%d/%d' % (v.numerator_as_long(), v.denominator_as_long()))
                        elif z3.is_algebraic_value(v):
                            fr = v.approx(20)
                            vals[d.name()] = ('r', '%d/%d' % (fr.numerator_as_long(), fr.denominator_as_long()))
                        elif z3.is_true(v) or z3.is_false(v):
                            vals[d.name()] = ('b', str(z3.is_true(v)))
                return 'sat', vals
            if r == z3.unsat:
                return 'unsat', None
            return 'unknown', None
        if self.safe:
            res = hard_call(work, max(0.3, timeout_ms / 1000.0))
        else:
            # fast path: in-process with z3's cooperative timeout; a process-level alarm (default action: kill) is the
            # safety net against a solver call that ignores it -- the scheduler then re-runs the job in safe mode
            import signal
            s_ = mk()
            s_.set('timeout', int(timeout_ms))
            for c in cons:
                s_.add(c)
            signal.signal(signal.SIGALRM, signal.SIG_DFL)
            signal.alarm(int(timeout_ms / 1000.0) + 45)
            try:
                r_ = s_.check()
                if r_ == z3.sat:
                    res = ('sat', s_.model())
                elif r_ == z3.unsat:
                    res = ('unsat', None)
                else:
                    res = ('unknown', None)
            except z3.Z3Exception:
                res = ('unknown', None)
            finally:
                signal.alarm(0)
            self.stats['feas_checks'] += 1
            self.stats['feas_s'] += time.time() - t0
            if res[0] == 'unknown':
                self.stats['feas_unknown'] += 1
            return res
        self.stats['feas_checks'] += 1
        self.stats['feas_s'] += time.time() - t0
        if res is None:
            self.stats['feas_unknown'] += 1
            return 'unknown', None
        r, vals = res
        if r == 'sat':
            return 'sat', PseudoModel(vals)
        if r == 'unsat':
            return 'unsat', None
        self.stats['feas_unknown'] += 1
        return 'unknown', None

    def _check(self, extra):
        return self.sat_check([extra], self.feas_timeout_ms)

    def decide(self, cond):
        cond = z3.simplify(cond)
        if z3.is_true(cond):
            return True
        if z3.is_false(cond):
            return False
        cid = cond.get_id()
        if cid in self.decided:
            return self.decided[cid][0]
        if self.pos < len(self.prefix):
            take, forked = self.prefix[self.pos]
        else:
            self._shard_gate()
            known = None
            forked = False
            if self.model is not None:
                try:
                    v = self.model.eval(cond, model_completion=True)
                    if z3.is_true(v):
                        known = True
                    elif z3.is_false(v):
                        known = False
                except z3.Z3Exception:
                    known = None
            if known is not None:
                self.stats['model_hits'] += 1
                other, m2 = self._check(z3.Not(cond) if known else cond)
                take = known
                if other != 'unsat':
                    forked = True
                    self.pending.append(self.prefix[:self.pos] + [(not known, True)])
            else:
                rt, mt = self._check(cond)
                rf, mf = self._check(z3.Not(cond))
                if rt == 'unsat' and rf == 'unsat':
                    raise PathAbort('infeasible')
                if rt == 'unsat':
                    take = False
                    self.model = mf
                elif rf == 'unsat':
                    take = True
                    self.model = mt
                else:
                    # prefer a side with a model
                    take = True if rt == 'sat' or rf != 'sat' else False
                    self.model = mt if take else mf
                    forked = True
                    self.pending.append(self.prefix[:self.pos] + [(not take, True)])
            self.prefix.append((take, forked))
            self.nforks += 1
        self.pos += 1
        # keep the terms alive: z3 re-uses AST ids after garbage collection
        self.decided[cid] = (take, cond)
        try:
            ncond = z3.simplify(z3.Not(cond))
            self.decided[ncond.get_id()] = (not take, ncond)
        except z3.Z3Exception:
            pass
        self.pc.append(cond if take else z3.Not(cond))
        if self.model is not None and self.pos <= len(self.prefix):
            try:
                v = self.model.eval(self.pc[-1], model_completion=True)
                if not z3.is_true(v):
                    self.model = None
            except z3.Z3Exception:
                self.model = None
        return take

    def _fork_bits(self):
        return [t for (t, f) in self.prefix if f]

    def _shard_of(self):
        h = 1
        for b in self._fork_bits()[:self.shard_depth]:
            h = h * 2 + (1 if b else 0)
        return ((h * 2654435761) >> 5) % self.shard[1]

    def _shard_gate(self):
        if self.shard is None or self._shard_checked:
            return
        if len(self._fork_bits()) >= self.shard_depth:
            self._shard_checked = True
            if self._shard_of() != self.shard[0]:
                raise PathAbort('shard')

    def shard_owns_path(self):
        """called at the end of a path: does this shard own it?"""
        if self.shard is None:
            return True
        return self._shard_of() == self.shard[0]

    def decision_string(self):
        return ''.join(('T' if t else 'F') if f else ('t' if t else 'f') for (t, f) in self.prefix)
