"""symx.harness -- harness context (symbolic and concrete/replay modes), registry."""
import contextlib
import math
from fractions import Fraction

import numpy as np
import z3

from .core import (Sym, SymBool, SymInt, Engine, EngineError, PathAbort, boolterm, lift, realval,
                   engine, set_engine, uf_apply)

REGISTRY = {}


class Harness(object):
    def __init__(self, prop, name, fn, quick, thorough, covers=(), doc='', functions=(),
                 max_paths=20000, shards=1, shard_depth=6, stubs=(), outside=()):
        self.prop, self.name, self.fn = prop, name, fn
        self.quick, self.thorough = quick, thorough
        self.covers = tuple(covers)
        self.doc = doc
        self.functions = tuple(functions)
        self.max_paths = max_paths
        self.shards = shards
        self.shard_depth = shard_depth
        self.stubs = tuple(stubs)
        self.outside = tuple(outside)


def harness(prop, name=None, quick=({},), thorough=None, **kw):
    def deco(fn):
        n = name or fn.__name__
        h = Harness(prop, n, fn, list(quick), list(thorough if thorough is not None else quick),
                    doc=(fn.__doc__ or '').strip(), **kw)
        REGISTRY.setdefault(prop, {})[n] = h
        return fn
    return deco


class ReplayPrecondition(Exception):
    pass


class Ctx(object):
    """One object, two modes.  'sym': inputs are Sym, goals are z3 terms.
    'replay': inputs are floats taken from a solver model (or a seeded point), goals are
    evaluated in float arithmetic with a relative tolerance."""

    def __init__(self, mode, eng=None, values=None, rtol=1e-7):
        self.mode = mode
        self.eng = eng
        self.values = values or {}
        self.rtol = rtol
        self.inputs = {}      # name -> z3 const
        self.goals = []       # (name, term|bool)
        self.covered = set()
        self.hints = []
        self.cover_conds = []
        self.regions = {}
        self.notes = {}
        self.pre_ok = True

    @property
    def sym(self):
        return self.mode == 'sym'

    # ---- inputs
    def real(self, name, gt=None, ge=None, lt=None, le=None, hint=None):
        if self.sym:
            v = z3.Real(name)
            self.inputs[name] = v
            if hint is not None:
                self.hints.append(z3.And(v >= realval(hint[0]), v <= realval(hint[1])))
            s = Sym(v)
        else:
            if name not in self.values:
                raise ReplayPrecondition('no value for %s' % name)
            s = float(Fraction(self.values[name])) if isinstance(self.values[name], str) \
                else float(self.values[name])
        if gt is not None:
            self.assume(s > gt)
        if ge is not None:
            self.assume(s >= ge)
        if lt is not None:
            self.assume(s < lt)
        if le is not None:
            self.assume(s <= le)
        return s

    def reals(self, name, n, **kw):
        vals = [self.real('%s_%d' % (name, i), **kw) for i in range(n)]
        if self.sym:
            a = np.empty(n, dtype=object)
            for i, v in enumerate(vals):
                a[i] = v
            return a
        return np.array(vals, dtype=float)

    def array(self, name, shape, **kw):
        shape = tuple(shape)
        a = np.empty(shape, dtype=object if self.sym else float)
        for idx in np.ndindex(shape):
            a[idx] = self.real('%s_%s' % (name, '_'.join(map(str, idx))), **kw)
        return a

    def increasing(self, name, n, gt=None, strict=True):
        a = self.reals(name, n, gt=gt)
        for i in range(n - 1):
            self.assume(a[i] < a[i + 1] if strict else a[i] <= a[i + 1])
        return a

    def choice(self, name, n):
        """symbolic selector in range(n); concretised by forking"""
        if self.sym:
            v = z3.Int(name)
            self.inputs[name] = v
            self.eng.assume(z3.And(v >= 0, v < n))
            return SymInt(v, 0, n - 1).pick()
        return int(Fraction(self.values[name])) if isinstance(self.values[name], str) \
            else int(self.values[name])

    def boolean(self, name):
        return self.choice(name, 2) == 1

    def const(self, name, value, positive=True):
        """a physical constant: symbolic (only sign known) in sym mode, its value in replay"""
        if self.sym:
            v = z3.Real('const_' + name)
            if positive:
                self.eng.assume(v > 0)
            return Sym(v)
        return value

    # ---- logic helpers working in both modes
    def assume(self, b):
        if self.sym:
            self.eng.assume(b)
        else:
            if not bool(b):
                self.pre_ok = False
                raise ReplayPrecondition('precondition false in float arithmetic')

    def _tol(self, a, b, scale=None):
        s = max(abs(float(a)), abs(float(b)), float(scale) if scale is not None else 0.0)
        return self.rtol * s

    def _symcmp(self, a, b, op):
        """sym-mode comparison that tolerates concrete nan/inf operands (IEEE semantics)"""
        ca = not isinstance(a, (Sym, SymInt)) and not z3.is_expr(a)
        cb = not isinstance(b, (Sym, SymInt)) and not z3.is_expr(b)
        if ca and cb:
            fa, fb = float(a), float(b)
            r = {'==': fa == fb, '<=': fa <= fb, '<': fa < fb, '!=': fa != fb}[op]
            return SymBool(z3.BoolVal(bool(r)))
        for v, other, flip in ((a, b, False), (b, a, True)):
            if not isinstance(v, (Sym, SymInt)) and not z3.is_expr(v):
                fv = float(v)
                if fv != fv:
                    return SymBool(z3.BoolVal(op == '!='))
                if math.isinf(fv):
                    if op == '==':
                        return SymBool(z3.BoolVal(False))
                    if op == '!=':
                        return SymBool(z3.BoolVal(True))
                    # v is a (flip: right) operand
                    big = fv > 0
                    res = (not big) if not flip else big     # -inf <= x ; x <= +inf
                    return SymBool(z3.BoolVal(res))
        la, lb = lift(a), lift(b)
        return SymBool({'==': la == lb, '<=': la <= lb, '<': la < lb, '!=': la != lb}[op])

    def eq(self, a, b, scale=None):
        if self.sym:
            return self._symcmp(a, b, '==')
        a, b = float(a), float(b)
        if a != a or b != b:
            return False
        if math.isinf(a) or math.isinf(b):
            return a == b
        return abs(a - b) <= self._tol(a, b, scale)

    def le(self, a, b, scale=None):
        if self.sym:
            return self._symcmp(a, b, '<=')
        a, b = float(a), float(b)
        if a != a or b != b:
            return False
        return a <= b + self._tol(a, b, scale)

    def lt(self, a, b):
        if self.sym:
            return self._symcmp(a, b, '<')
        a, b = float(a), float(b)
        return a < b

    def ge(self, a, b, scale=None):
        return self.le(b, a, scale)

    def gt(self, a, b):
        return self.lt(b, a)

    def and_(self, *bs):
        if len(bs) == 1 and isinstance(bs[0], (list, tuple)):
            bs = bs[0]
        if self.sym:
            return SymBool(z3.And(*[boolterm(b) for b in bs])) if bs else SymBool(z3.BoolVal(True))
        return all(bool(b) for b in bs)

    def or_(self, *bs):
        if len(bs) == 1 and isinstance(bs[0], (list, tuple)):
            bs = bs[0]
        if self.sym:
            return SymBool(z3.Or(*[boolterm(b) for b in bs])) if bs else SymBool(z3.BoolVal(False))
        return any(bool(b) for b in bs)

    def not_(self, b):
        if self.sym:
            return SymBool(z3.Not(boolterm(b)))
        return not bool(b)

    def implies(self, a, b):
        if self.sym:
            return SymBool(z3.Implies(boolterm(a), boolterm(b)))
        return (not bool(a)) or bool(b)

    def resolve(self, c):
        """True/False when the current path condition already determines c, else None (no forking)"""
        if not self.sym:
            return bool(c)
        t = z3.simplify(boolterm(c))
        if z3.is_true(t):
            return True
        if z3.is_false(t):
            return False
        r1, _ = self.eng.sat_check([t], 500)
        if r1 == 'unsat':
            return False
        r2, _ = self.eng.sat_check([z3.Not(t)], 500)
        if r2 == 'unsat':
            return True
        return None

    def ite_resolved(self, c, a, b):
        """ite whose condition is replaced by its value when the path already determines it"""
        r = self.resolve(c)
        if r is True:
            return a
        if r is False:
            return b
        return self.ite(c, a, b)

    def ite(self, c, a, b):
        if self.sym:
            return Sym(z3.If(boolterm(c), lift(a), lift(b)))
        return a if c else b

    def min_(self, *xs):
        r = xs[0]
        for x in xs[1:]:
            r = self.ite(self.le_strict(x, r), x, r)
        return r

    def max_(self, *xs):
        r = xs[0]
        for x in xs[1:]:
            r = self.ite(self.le_strict(r, x), x, r)
        return r

    def le_strict(self, a, b):
        """exact <= (no tolerance) for use inside ite/min/max"""
        if self.sym:
            return self._symcmp(a, b, '<=')
        return float(a) <= float(b)

    def eq_arr(self, a, b, scale=None):
        a = np.asarray(a)
        b = np.asarray(b)
        if a.shape != b.shape:
            return self.and_(False) if self.sym else False
        return self.and_([self.eq(a[i], b[i], scale) for i in np.ndindex(a.shape)])

    # transcendental functions for specs
    def exp(self, x):
        if self.sym:
            return uf_apply('exp', x)
        return math.exp(x)

    def log(self, x):
        if self.sym:
            return uf_apply('ln', x)
        return math.log(x)

    def log10(self, x):
        if self.sym:
            return uf_apply('log10', x)
        return math.log10(x)

    def exp10(self, x):
        if self.sym:
            return uf_apply('exp10', x)
        return 10.0 ** x

    def sqrt(self, x):
        if self.sym:
            return uf_apply('sqrt', x)
        return math.sqrt(x)

    def squared(self, v):
        """(v*v, is_sqrt) for a value the code returns as a square root: in symbolic mode the ARGUMENT of the sqrt
        application itself (the identity to prove is then rational; that sqrt was applied is visible in the term)"""
        if self.sym and isinstance(v, Sym) and z3.is_app(v.t) and v.t.decl().name() == 'sqrt':
            return Sym(v.t.arg(0)), True
        return v * v, not self.sym

    def lemma(self, b):
        """a true fact about the uninterpreted functions, added as assumption (sym only)"""
        if self.sym:
            self.eng.add_lemma(b)

    # ---- obligations
    def goal(self, name, b, known_region=None):
        if self.sym:
            self.goals.append((name, boolterm(b), known_region))
        else:
            self.goals.append((name, bool(b), known_region))

    def hint(self, b):
        """soft preference for counterexample/witness models (never restricts what is proved)"""
        if self.sym:
            self.hints.append(boolterm(b))

    def cover(self, name):
        self.covered.add(name)

    def cover_if(self, name, b):
        """reachability witness: `name` is covered if this path admits values with b true
        (decided by a solver query at the end of the path, no forking)"""
        if self.sym:
            self.cover_conds.append((name, boolterm(b)))

    def ne(self, a, b):
        if self.sym:
            return self._symcmp(a, b, '!=')
        return float(a) != float(b)

    def region(self, name, b):
        self.regions[name] = boolterm(b) if self.sym else bool(b)

    def note(self, k, v):
        self.notes[k] = v

    def is_sym(self, x):
        return isinstance(x, (Sym, SymBool))

    def term_str(self, x, n=200):
        if isinstance(x, Sym):
            s = str(z3.simplify(x.t))
            return s if len(s) <= n else s[:n] + '...'
        return repr(x)


def expect_exception(fn, *types):
    """run fn(); return (raised_exception_or_None, result)"""
    try:
        r = fn()
        return None, r
    except types as e:      # noqa
        return e, None
