"""symx.shim -- run real numpy-using code on object arrays of Sym.

Attributes of the `numpy` and `math` modules are replaced, for the duration of a
symbolic run only, by wrappers that change behaviour **only when the caller is a
taurex module or a /verif harness module** (frame filter) -- numpy's own internals,
z3 and everything else see the originals.  Nothing in /repo is edited.
"""
import contextlib
import math as _math
import sys

import numpy as _np

from .core import Sym, SymBool, EngineError, uf_apply, engine

_CALLERS = ('taurex', 'props', 'symx.spec', 'symx.shim')

_orig = {}


def _sym_caller(depth=2):
    f = sys._getframe(depth)
    name = f.f_globals.get('__name__', '')
    return name.startswith(_CALLERS)


def _has_sym(x):
    if isinstance(x, (Sym, SymBool)):
        return True
    if isinstance(x, _np.ndarray):
        return x.dtype == object
    if isinstance(x, (list, tuple)):
        return any(_has_sym(v) for v in x)
    return False


def _elementwise(fsym, fnum):
    def one(v):
        if isinstance(v, Sym):
            return fsym(v)
        return fnum(v)

    def f(x):
        if isinstance(x, Sym):
            return fsym(x)
        if isinstance(x, _np.ndarray) and x.dtype == object:
            out = _np.empty(x.shape, dtype=object)
            for idx in _np.ndindex(x.shape):
                out[idx] = one(x[idx])
            return out
        if isinstance(x, (list, tuple)) and _has_sym(x):
            return f(_np.array(x, dtype=object))
        return None
    return f


def _num_exp(v):
    v = float(v)
    if v == -_math.inf:
        return 0.0
    return _math.exp(v)


def _num_log(v):
    v = float(v)
    if v == 0:
        return -_math.inf
    if v < 0 or v != v:
        return _math.nan
    return _math.log(v)


def _num_log10(v):
    v = float(v)
    if v == 0:
        return -_math.inf
    if v < 0 or v != v:
        return _math.nan
    return _math.log10(v)


def _num_sqrt(v):
    v = float(v)
    return _math.sqrt(v) if v >= 0 else _math.nan


_EW = {
    'exp': _elementwise(lambda s: s.exp(), _num_exp),
    'log': _elementwise(lambda s: s.log(), _num_log),
    'log10': _elementwise(lambda s: s.log10(), _num_log10),
    'sqrt': _elementwise(lambda s: s.sqrt(), _num_sqrt),
    'abs': _elementwise(lambda s: abs(s), abs),
    'absolute': _elementwise(lambda s: abs(s), abs),
    'fabs': _elementwise(lambda s: abs(s), abs),
    'isnan': _elementwise(lambda s: False, lambda v: v != v),
    'isfinite': _elementwise(lambda s: True, lambda v: _math.isfinite(v)),
    'isinf': _elementwise(lambda s: False, lambda v: _math.isinf(v)),
    'square': _elementwise(lambda s: s * s, lambda v: v * v),
}


def _mk_ew(name):
    orig = getattr(_np, name)
    ew = _EW[name]

    def w(x, *a, **k):
        if not a and (not k) and _sym_caller():
            r = ew(x)
            if r is not None:
                if name in ('isnan', 'isfinite', 'isinf') and isinstance(r, _np.ndarray):
                    return r.astype(bool)
                return r
        return orig(x, *a, **k)
    w.__name__ = name
    return w


def _mk_alloc(name):
    orig = getattr(_np, name)

    def w(*a, **k):
        if 'dtype' in k and k['dtype'] in (_np.float64, float, 'float64', 'float') and _sym_caller() \
                and engine() is not None:
            k = dict(k)
            del k['dtype']
        if _sym_caller() and engine() is not None and 'dtype' not in k and \
                not (name in ('zeros', 'ones', 'empty') and len(a) > 1) and \
                not (name == 'full' and len(a) > 2):
            k = dict(k)
            k['dtype'] = object
            r = orig(*a, **k)
            # numpy float scalars, not python numbers: 0.0/0.0 must give nan as in the float
            # code, not ZeroDivisionError
            r[...] = _np.float64(1.0) if name == 'ones' else (a[1] if name == 'full' else _np.float64(0.0))
            return r
        return orig(*a, **k)
    w.__name__ = name
    return w


def _mk_like(name):
    orig = getattr(_np, name)

    def w(x, *a, **k):
        # a concrete FLOAT array used as a template by the code under test will receive symbolic values: give it the
        # object dtype (integer templates keep their dtype: truncation into them is real behaviour and is realised)
        if _sym_caller() and engine() is not None and not a and 'dtype' not in k and isinstance(x, _np.ndarray) \
                and x.dtype.kind == 'f':
            r = _np.empty(x.shape, dtype=object)
            r[...] = _np.float64(1.0) if name == 'ones_like' else _np.float64(0.0)
            return r
        return orig(x, *a, **k)
    w.__name__ = name
    return w


def _power(x, p, *a, **k):
    if _sym_caller() and (_has_sym(x) or _has_sym(p)):
        return x ** p
    return _orig[('np', 'power')](x, p, *a, **k)


def _nan_to_num(x, *a, **k):
    if _sym_caller() and _has_sym(x):
        if isinstance(x, Sym):
            return x
        out = x.copy()
        for idx in _np.ndindex(x.shape):
            v = x[idx]
            if not isinstance(v, Sym):
                v = float(v)
                if v != v:
                    out[idx] = 0.0
                elif _math.isinf(v):
                    out[idx] = _math.copysign(1.7976931348623157e+308, v)
        return out
    return _orig[('np', 'nan_to_num')](x, *a, **k)


def _linspace(start, stop, num=50, *a, **k):
    if _sym_caller() and (_has_sym(start) or _has_sym(stop)):
        if a or k:
            raise EngineError('linspace options on symbolic ends')
        num = int(num)
        out = _np.empty(num, dtype=object)
        for i in range(num):
            out[i] = start if num == 1 else start + (stop - start) * i / (num - 1)
        if num > 1:
            out[num - 1] = stop
        return out
    return _orig[('np', 'linspace')](start, stop, num, *a, **k)


def _logspace(start, stop, num=50, *a, **k):
    if _sym_caller() and (_has_sym(start) or _has_sym(stop)):
        if a or k:
            raise EngineError('logspace options on symbolic ends')
        return 10 ** _linspace(start, stop, num)
    return _orig[('np', 'logspace')](start, stop, num, *a, **k)


def _sum(x, *a, **k):
    r = _orig[('np', 'sum')](x, *a, **k)
    if type(r) is int and _sym_caller():
        return _np.float64(r)
    return r


def _nansum(x, *a, **k):
    if _sym_caller() and _has_sym(x):
        x = _np.asarray(x, dtype=object)
        flat = [v for v in x.ravel() if isinstance(v, Sym) or v == v]
        if a or k.get('axis') is not None:
            raise EngineError('nansum with axis on symbolic array')
        s = 0.0
        for v in flat:
            s = s + v
        return s
    return _orig[('np', 'nansum')](x, *a, **k)


def interp_model(x, xp, fp, left=None, right=None):
    """contract of np.interp for non-decreasing xp, as numpy computes it: left/right outside [xp[0], xp[-1]];
    otherwise with j the LAST index such that xp[j] <= x: fp[-1] if j is the last node, fp[j] if x == xp[j],
    else fp[j] + (fp[j+1]-fp[j]) (x-xp[j])/(xp[j+1]-xp[j])"""
    xp = list(xp)
    fp = list(fp)
    n = len(xp)
    if n == 0:
        raise ValueError('array of sample points is empty')      # as numpy
    lv = fp[0] if left is None else left
    rv = fp[-1] if right is None else right

    def one(xv):
        if bool(xv < xp[0]):
            return lv
        if bool(xv > xp[-1]):
            return rv
        j = 0
        for i in range(1, n):
            if bool(xp[i] <= xv):
                j = i
            else:
                break
        if j == n - 1:
            return fp[n - 1]
        if bool(xv == xp[j]):
            return fp[j]
        return fp[j] + (fp[j + 1] - fp[j]) * (xv - xp[j]) / (xp[j + 1] - xp[j])
    if isinstance(x, _np.ndarray) or isinstance(x, (list, tuple)):
        xa = _np.asarray(x, dtype=object)
        out = _np.empty(xa.shape, dtype=object)
        for idx in _np.ndindex(xa.shape):
            out[idx] = one(xa[idx])
        return out
    return one(x)


def _interp(x, xp, fp, left=None, right=None, period=None):
    if _sym_caller() and (_has_sym(x) or _has_sym(xp) or _has_sym(fp)):
        return interp_model(x, xp, fp, left, right)
    return _orig[('np', 'interp')](x, xp, fp, left, right, period)


def _gradient(f, *a, **k):
    if _sym_caller() and _has_sym(f):
        f = list(f)
        n = len(f)
        if a or k:
            raise EngineError('gradient with spacing on symbolic array')
        out = _np.empty(n, dtype=object)
        out[0] = f[1] - f[0]
        out[-1] = f[-1] - f[-2]
        for i in range(1, n - 1):
            out[i] = (f[i + 1] - f[i - 1]) / 2.0
        return out
    return _orig[('np', 'gradient')](f, *a, **k)


def _average(a, axis=None, weights=None, **k):
    if _sym_caller() and (_has_sym(a) or _has_sym(weights)):
        a = _np.asarray(a, dtype=object)
        if weights is None:
            return _np.sum(a, axis=axis) / (a.shape[axis] if axis is not None else a.size)
        w = _np.asarray(weights, dtype=object)
        if axis is None:
            return _np.sum(a * w) / _np.sum(w)
        if axis == 0 and w.ndim == 1:
            shape = (len(w),) + (1,) * (a.ndim - 1)
            return _np.sum(a * w.reshape(shape), axis=0) / _np.sum(w)
        raise EngineError('average: unsupported axis/weights on symbolic array')
    return _orig[('np', 'average')](a, axis=axis, weights=weights, **k)


def _histogram(a, bins=10, range=None, density=None, weights=None):
    if _sym_caller() and (_has_sym(a) or _has_sym(bins) or _has_sym(weights)):
        a = list(a)
        edges = list(bins)
        nb = len(edges) - 1
        w = list(weights) if weights is not None else [1] * len(a)
        out = _np.empty(nb, dtype=object)
        out[...] = _np.float64(0.0)
        for v, wv in zip(a, w):
            for j in _np.arange(nb):
                last = (j == nb - 1)
                if bool(v >= edges[j]) and (bool(v <= edges[j + 1]) if last else bool(v < edges[j + 1])):
                    out[j] = out[j] + wv
                    break
        return out, _np.array(edges, dtype=object)
    return _orig[('np', 'histogram')](a, bins=bins, range=range, density=density, weights=weights)


def _digitize(x, bins, right=False):
    if _sym_caller() and (_has_sym(x) or _has_sym(bins)):
        bins = list(bins)
        res = []
        for v in list(x):
            i = 0
            for b in bins:
                if (bool(b < v) if right else bool(b <= v)):
                    i += 1
                else:
                    break
            res.append(i)
        return _np.array(res, dtype=_np.intp)
    return _orig[('np', 'digitize')](x, bins, right)


_NP_PATCH = {}
for _n in _EW:
    _NP_PATCH[_n] = _mk_ew
for _n in ('zeros', 'ones', 'empty', 'full'):
    _NP_PATCH[_n] = _mk_alloc
for _n in ('zeros_like', 'ones_like', 'empty_like'):
    _NP_PATCH[_n] = _mk_like


def _math_wrap(name, fsym):
    orig = getattr(_math, name)

    def w(x, *a):
        if isinstance(x, Sym):
            if a:
                raise EngineError('math.%s with extra args on Sym' % name)
            return fsym(x)
        if isinstance(x, _np.ndarray) and x.dtype == object and x.ndim == 0:
            return w(x.item(), *a)
        return orig(x, *a)
    w.__name__ = name
    return w


_MATH_PATCH = {
    'exp': lambda s: s.exp(),
    'log': lambda s: s.log(),
    'log10': lambda s: s.log10(),
    'sqrt': lambda s: s.sqrt(),
    'fabs': lambda s: abs(s),
    'isnan': lambda s: False,
    'isfinite': lambda s: True,
    'isinf': lambda s: False,
}


@contextlib.contextmanager
def shims():
    saved_np = {}
    saved_math = {}
    try:
        for n, mk in _NP_PATCH.items():
            saved_np[n] = getattr(_np, n)
            _orig[('np', n)] = saved_np[n]
            setattr(_np, n, mk(n))
        for n, f in (('linspace', _linspace), ('logspace', _logspace), ('sum', _sum), ('power', _power), ('nan_to_num', _nan_to_num), ('nansum', _nansum),
                     ('interp', _interp), ('gradient', _gradient), ('average', _average),
                     ('histogram', _histogram), ('digitize', _digitize)):
            saved_np[n] = getattr(_np, n)
            _orig[('np', n)] = saved_np[n]
            setattr(_np, n, f)
        for n, f in _MATH_PATCH.items():
            saved_math[n] = getattr(_math, n)
            setattr(_math, n, _math_wrap(n, f))
        yield
    finally:
        for n, v in saved_np.items():
            setattr(_np, n, v)
        for n, v in saved_math.items():
            setattr(_math, n, v)
