"""run cvc5 (python wheel) on an SMT-LIB2 file; prints sat/unsat/unknown.  Separate process so a
hard timeout can be enforced by the caller."""
import sys


def main(path, tlimit_ms):
    import cvc5
    txt = open(path).read()
    slv = cvc5.Solver()
    slv.setOption('tlimit-per', str(int(tlimit_ms)))
    slv.setLogic('QF_UFNRA')
    parser = cvc5.InputParser(slv)
    parser.setStringInput(cvc5.InputLanguage.SMT_LIB_2_6, txt, 'q')
    sm = parser.getSymbolManager()
    res = 'unknown'
    while True:
        cmd = parser.nextCommand()
        if cmd.isNull():
            break
        out = str(cmd.invoke(slv, sm)).strip()
        if out in ('sat', 'unsat', 'unknown'):
            res = out
    print('RESULT', res)


if __name__ == '__main__':
    import resource
    import signal
    lim = int(float(sys.argv[2]) / 1000.0) + 10
    signal.alarm(lim)                       # self-destruct: never outlive the caller's budget
    resource.setrlimit(resource.RLIMIT_CPU, (lim, lim + 5))
    main(sys.argv[1], float(sys.argv[2]))
