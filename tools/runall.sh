#!/bin/bash
# run every claimed check's quick (or $1=thorough) command; summary to stdout
tier=${1:-quick}
cd "$(dirname "$0")/.."
for id in $(python3 -c "import json;print(' '.join(c['property_id'] for c in json.load(open('MANIFEST.json'))['checks']))"); do
  s=$(date +%s)
  out=$(./check $id --tier $tier 2>&1); rc=$?
  echo "$id rc=$rc $(( $(date +%s)-s ))s :: $(echo "$out" | grep -E "^C[0-9]+ tier" | tail -1)"
  echo "$out" | grep -E "VIOLATION|INCONCLUSIVE|HARNESS-ERROR|KNOWN-FINDING" | cut -c1-300 | head -5
done
