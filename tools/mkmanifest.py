#!/usr/bin/env python3
"""regenerate /verif/MANIFEST.json from the table below (kept in one place so it stays valid)"""
import json, os
V = os.path.dirname(os.path.dirname(os.path.abspath(__file__)))
LEVEL_TEXT = ("Bounded symbolic execution of the real functions on z3 Real proxies + SMT (z3 5.1 default/nlsat, "
              "cvc5 1.4 cross-check): each explored path's obligations are proved for ALL real-valued inputs at the "
              "stated sizes (unsat), or a model is returned and replayed on the unmodified JIT-compiled code before a "
              "VIOLATION is printed. Not a proof (sizes are bounded, reals stand for floats) and not sampling.")
NOTE = ("Trusted: numpy's generic machinery behaves on object arrays as on float arrays; numba kernels behave as their "
        "Python bodies (witness concordance replays solver witnesses on the JIT code); contract stubs / UF lemma "
        "instances named in the evidence are true of the real routines; z3/cvc5. Float rounding is outside the claim.")
CLAIMED = {
    'C14': ('4/C14', 'symbolic execution of the pickle/HDF5/Exo-Transmit cross-section loaders and pickle/HDF5 k-table loaders on one symbolic table (I/O stubbed to arbitrary tables), plus solver-chosen operation histories over the real OpacityCache + z3'),
    'C16': ('4/C16', 'symbolic execution of Binner/FluxBinner/SimpleBinner/NativeBinner.generate_spectrum_output on a symbolic model output + z3 (self-consistency clause only)'),
    'C13': ('4/C13', 'symbolic execution of two path_integral runs (full vs restricted grid), Opacity.opacity/KTable.opacity selection and clip_native_to_wngrid+FluxBinner on symbolic grids + z3/nlsat'),
    'C09': ('4/C09', 'symbolic execution of quantile_corner, NestleOptimizer.store_nestle_output/get_solution and Optimizer.generate_solution/compute_derived_trace on symbolic samples and weights + z3/nlsat'),
    'C07': ('4/C07', 'symbolic operation histories (operation/target selectors as solver integers, all numeric arguments symbolic) over the real Optimizer API, oracle from current settings only + z3'),
    'C06': ('4/C06', 'symbolic execution of the three compute_fit closures (captured by recording sampler doubles), chisq_trans/update_model/compile_params/priors on a symbolic model double + z3/nlsat'),
    'C17': ('4/C17', 'symbolic execution of ArraySpectrum/ObservedSpectrum/TaurexSpectrum loading and create_binner on symbolic rows in any order (argsort forks) + z3'),
    'C20': ('4/C20', 'symbolic execution of contribute_ktau / evaluate_emission_ktables vs the cross-section paths on degenerate k-tables, Jensen clause via tangent-line lemma instances + z3/nlsat'),
    'C03': ('4/C03', 'symbolic execution of Absorption/CIA/Rayleigh prepare(_each) against cache/chemistry doubles and of model/model_contrib/model_full_contrib on a real TransmissionModel + z3/nlsat'),
    'C02': ('4/C02', 'symbolic execution of EmissionModel.evaluate_emission/path_integral/compute_final_flux, DirectImageModel and the Planck kernels (UF Planck function, leggauss contract stub) + z3/nlsat'),
    'C19': ('4/C19', 'symbolic execution of SimpleClouds (inside the real transmission path_integral), FlatMie and LeeMie prepare_each on symbolic pressure levels/bounds + z3'),
    'C01': ('4/C01', 'symbolic execution of TransmissionModel.path_integral/compute_absorption/compute_path_length_old and the contribute kernels on a directly constructed symbolic atmosphere + z3/nlsat with UF exp/sqrt'),
    'C12': ('4/C12', 'symbolic execution of Isothermal/NPoint/Rodgers2000/TemperatureArray/Guillot2010 on symbolic pressures and control values + z3 (interp/interp1d/expn contract stubs)'),
    'C11': ('4/C11', 'symbolic execution of SimplePressureProfile/ArrayPressureProfile, Planet.calculate_scale_properties and a real TransmissionModel.initialize_profiles/generate_profiles + z3 with UF ln/log10/exp10/sqrt'),
    'C10': ('4/C10', 'symbolic execution of TaurexChemistry/AutoChemistry and the gas-profile classes (symbolic abundances, ratios, pressures, data-availability selectors) + z3'),
    'C08': ('4/C08', 'symbolic execution of the prior classes, parse_priors/create_prior (token literal stub) and compile_params defaults + z3 with UF ppf/log10/exp10'),
    'C18': ('4/C18', 'symbolic execution of OnlineVariance + taurex.mpi over a serialising communicator double, rank assignment as symbolic selectors + z3 nlsat'),
    'C04': ('4/C04', 'symbolic execution of InterpolatingOpacity (real loader on stubbed pickle) over symbolic T,P,grids,table + z3/nlsat with UF log10/exp/ln lemma instances'),
    'C05': ('4/C05', 'symbolic execution of FluxBinner/SimpleBinner/NativeBinner on symbolic grids + z3 (overlap-weighted-mean identity per path)'),
}
NA = {
    'C15': ('solver-based checking does not apply: every clause is over a finite keyword->class / key->argument table, over text consumed by '
            'configobj, C-level float() and inspect (where symbolic strings are realised), or over a whole-program CLI run writing HDF5; there '
            'is no numeric or structural input domain for a solver to quantify over, and the only executable check would be concrete '
            'enumeration of keywords and CLI runs (a different technique). See DESIGN.md section 5.'),
}
DEFAULT_NA = 'not claimed (see DESIGN.md section 5)'
props = [json.loads(l) for l in open(os.path.join(V, 'properties.jsonl'))]
checks, na = [], []
for p in props:
    i = p['id']
    if i in CLAIMED:
        ref, tech = CLAIMED[i]
        checks.append(dict(property_id=i, quick_cmd='./check %s --tier quick' % i,
                           thorough_cmd='./check %s --tier thorough' % i,
                           evidence_file='evidence/%s.json' % i,
                           replay_cmd_template='./check --replay {path}', engine='symx',
                           level_claimed=dict(category='other', text=LEVEL_TEXT, design_ref=ref),
                           level_note=NOTE, technique=tech))
    else:
        na.append(dict(property_id=i, reason=NA.get(i, DEFAULT_NA)))
m = dict(version=1, setup_cmd='./setup.sh',
         hooks=dict(guard='TAUREX_VERIF', enable='no source hooks: the harness process installs its shims on numpy/math at run time (TAUREX_VERIF=1 is exported by ./check for completeness)',
                    baseline_off_cmd='cd /repo && /venv/bin/python -m pytest -ra -q -p no:cacheprovider --timeout=900 --continue-on-collection-errors',
                    source_commits=[], add_only=True),
         engines=[dict(name='symx', path='symx/', serves_properties=sorted(CLAIMED),
                       kind_free_text='symbolic executor for numpy code (z3 Real proxies in object arrays, fork on __bool__, re-execution per decision prefix) + SMT portfolio + concrete replay')],
         checks=checks, not_applicable=na,
         notes='Exit codes: 0 held / 1 VIOLATION (replayed on real code) / 2 harness error or inconclusive (unknown query, path cap, missing reachability witness). known_findings.json lists recorded findings and fixes.')
json.dump(m, open(os.path.join(V, 'MANIFEST.json'), 'w'), indent=1)
print('claimed', sorted(CLAIMED), 'n/a', len(na))
