"""debug helper: run one harness job in-process.  usage: onejob.py PROP HARNESS '{"params":..}' [shard_i shard_n]"""
import sys, json, time, faulthandler
faulthandler.dump_traceback_later(int(__import__('os').environ.get('DUMP_AFTER', '120')), exit=True)
sys.path[:0]=['/verif', __import__('os').environ.get('VERIF_REPO','/repo')]
from symx.run import run_job
spec=dict(prop=sys.argv[1],harness=sys.argv[2],params=json.loads(sys.argv[3]),shard=[int(sys.argv[4]),int(sys.argv[5])] if len(sys.argv)>5 else None,query_timeout_s=20)
r=run_job(spec)
for k in ('paths','goals','unsat','sat','unknown','vacuous_paths','aborted','covers','wall_s','engine','solve','unknown_goals'): print(k, r.get(k))
for e in r['errors']: print(e)
for c in r["cex"][:int(__import__("os").environ.get("NCEX","3"))]: print(json.dumps(c)[:1500])
import collections
print(collections.Counter((c['goal'].split('[')[0], tuple(c['regions'])) for c in r['cex']))
