#!/bin/bash
# tools/seedtest.sh <ID> <X> [extra check args]: verify a seeded change (demo both ways in a scratch worktree), then run the
# property's quick check against /repo with the patch applied, and restore /repo.
id=$1; x=$2; shift 2
src=${SEEDDIR:-/tmp/seedout}/$id
wt=/tmp/wt_verify_$id$x
git -C /repo worktree remove --force $wt 2>/dev/null
git -C /repo worktree add -q --detach $wt HEAD || exit 9
( cd $wt && PYTHONPATH=$wt PYTHONWARNINGS=ignore timeout 600 /venv/bin/python $src/demo_$x.py >/tmp/seed_clean.log 2>&1 ); c0=$?
git -C $wt apply $src/patch_$x.diff || { echo "PATCH DOES NOT APPLY"; git -C /repo worktree remove --force $wt; exit 8; }
( cd $wt && PYTHONPATH=$wt PYTHONWARNINGS=ignore timeout 600 /venv/bin/python $src/demo_$x.py >/tmp/seed_patched.log 2>&1 ); c1=$?
git -C /repo worktree remove --force $wt
echo "demo: clean exit=$c0 patched exit=$c1 ($(tail -1 /tmp/seed_patched.log | cut -c1-150))"
git -C /repo apply $src/patch_$x.diff || { echo "PATCH DOES NOT APPLY TO /repo"; exit 7; }
cd /verif && timeout 2400 ./check $id --tier ${TIER:-quick} --no-evidence "$@" 2>&1 | grep -E "VIOLATION|-> exit|HARNESS|INCONCL" | cut -c1-220 | head -5
git -C /repo checkout -- . ; git -C /repo status --short | head -3
