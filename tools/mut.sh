#!/bin/bash
# usage: tools/mut.sh FILE 'sed-expr' PROP [--only H]   -- apply a mutation to /repo, run the quick check, restore
f=$1; e=$2; shift 2
cd /repo && cp "$f" /tmp/mut_backup.$$ && sed -i "$e" "$f" && git diff --stat | tail -1
cd /verif && timeout 1500 ./check "$@" --no-evidence 2>&1 | grep -E "VIOLATION|-> exit|HARNESS|INCONCL" | head -6
cd /repo && cp /tmp/mut_backup.$$ "$f" && rm /tmp/mut_backup.$$ && git status --short | head -3
