#!/usr/bin/env python3
"""collect the seeded changes produced by independent sub-agents (under /tmp/seedout) and the outcome of running
the checks against them (a log written by tools/seedtest.sh runs) into /verif/seeded/"""
import json, os, re, shutil, sys
SRC = '/tmp/seedout'
DST = '/verif/seeded'
log = open(sys.argv[1]).read() if len(sys.argv) > 1 else ''
extra = json.load(open(sys.argv[2])) if len(sys.argv) > 2 else {}
blocks = re.split(r'^=== ', log, flags=re.M)[1:]
res = {}
for b in blocks:
    head, _, rest = b.partition('\n')
    if len(head.split(":")[0].split()) != 2:
        continue
    pid, x = head.split(":")[0].split()
    demo = re.search(r'demo: clean exit=(\d+) patched exit=(\d+)', rest)
    viol = re.findall(r'VIOLATION property=(\S+) replay=(\S+)', rest)
    final = re.search(r'^(C\d+ tier=.*)$', rest, flags=re.M)
    res[(pid, x)] = dict(demo_clean_exit=int(demo.group(1)) if demo else None, demo_patched_exit=int(demo.group(2)) if demo else None,
                         own_check_violations=len(viol), own_check_summary=final.group(1) if final else rest.strip().splitlines()[-1][:200] if rest.strip() else '')
rows = []
for pid in sorted(os.listdir(SRC)):
    d = os.path.join(SRC, pid)
    if not os.path.isdir(d):
        continue
    for x in ('A', 'B'):
        if not os.path.exists(os.path.join(d, 'patch_%s.diff' % x)):
            continue
        out = os.path.join(DST, pid, x)
        os.makedirs(out, exist_ok=True)
        shutil.copy(os.path.join(d, 'patch_%s.diff' % x), os.path.join(out, 'patch.diff'))
        shutil.copy(os.path.join(d, 'demo_%s.py' % x), os.path.join(out, 'demo.py'))
        meta = json.load(open(os.path.join(d, 'meta_%s.json' % x)))
        r = res.get((pid, x), {})
        ex = extra.get('%s_%s' % (pid, x), {})
        caught_by = []
        if r.get('own_check_violations'):
            caught_by.append(pid)
        caught_by += [c for c in ex.get('also_caught_by', []) if c not in caught_by]
        meta.update(dict(written_against=pid, produced_by='independent sub-agent given only the property text and a scratch worktree',
                         confirmed=dict(demo_exit_on_clean_tree=r.get('demo_clean_exit'), demo_exit_with_patch=r.get('demo_patched_exit'),
                                        how='tools/seedtest.sh %s %s: demo run in a scratch worktree with and without the patch; then the patch '
                                            'applied to /repo, ./check %s --tier quick, and /repo restored' % (pid, x, pid)),
                         check_result=r.get('own_check_summary'), caught_by=caught_by, note=ex.get('note', '')))
        json.dump(meta, open(os.path.join(out, 'meta.json'), 'w'), indent=1)
        rows.append((pid, x, meta.get('change', '')[:110], meta.get('needs_to_manifest', '')[:90], ', '.join(caught_by) or 'MISSED', ex.get('note', '')))
with open(os.path.join(DST, 'README.md'), 'w') as f:
    f.write('# Seeded changes\n\nEach was written by an independent sub-agent that saw only the property text and its own scratch worktree; each '
            'compiles, passes the 94 stable tests, and has a demonstration that fails with the change and passes without it (confirmed by '
            '`tools/seedtest.sh`).  "caught by" = the checks whose quick tier prints a replayed `VIOLATION` with the patch applied to /repo.\n\n')
    f.write('| property | id | change | needs to manifest | caught by | note |\n|---|---|---|---|---|---|\n')
    for r in rows:
        f.write('| %s | %s | %s | %s | %s | %s |\n' % tuple(str(v).replace('|', '/') for v in r))
print(len(rows), 'seeded changes;', sum(1 for r in rows if r[4] != 'MISSED'), 'caught')
